"""C10 — calibration and quantization select the same ops; statistics are never missing.

(1) Both `_get_op_scope` copies are verified (pyvc, loop invariant over the output list) against ONE spec function
    join(output names, ';'): the relational obligation of the property (both scopes equal for every operator) is then immediate.
(2) Call-site obligations, decided on the real ASTs: in calibrate / _initialize_model_qsvs / generate_quantization_parameters the
    call get_quantization_configs(op_key, op_scope) receives the key of the loop's operator through TFL_OP_CODE_TO_NAME and the
    scope of the SAME operator and the same subgraph's tensors; the skip conditions (unknown op code, NO_QUANTIZE) agree.
(3) Content-map obligation: the tensor-content map handed to the calibration function belongs to the subgraph being walked.
Interpreter behaviour (keys of the content map = tensor names of that subgraph) is assumed."""
import ast, importlib, os
import numpy as np
from vlib import core, pyvc
from contracts import scope
LEVEL = 'proof'

_INST = {}
def _instances():
    """one real Calibrator and one real ParamsGenerator (fixture model), reused across calls: a scope function that keeps state between calls is then exercised with history"""
    if not _INST:
        core.stub_package()
        cal = importlib.import_module('ai_edge_quantizer.calibrator'); pg = importlib.import_module('ai_edge_quantizer.params_generator')
        path = os.path.join(core.PKG, 'tests/models/single_fc.tflite')
        try: _INST['cal'] = cal.Calibrator(path)
        except Exception: _INST['cal'] = None
        try: _INST['pg'] = pg.ParamsGenerator(path)
        except Exception: _INST['pg'] = None
    return _INST['cal'], _INST['pg']
def _native_scopes(outputs, n_tensors, prefix='n'):
    core.stub_package()
    cal = importlib.import_module('ai_edge_quantizer.calibrator'); pg = importlib.import_module('ai_edge_quantizer.params_generator')
    from ai_edge_litert import schema_py_generated as schema
    tensors = []
    for t in range(n_tensors):
        T = schema.TensorT(); T.name = f'{prefix}{t}'.encode(); tensors.append(T)
    op = schema.OperatorT(); op.outputs = np.array(outputs, dtype=np.int32)
    ci, pi = _instances()
    a = cal.Calibrator._get_op_scope(ci, op, tensors); b = pg.ParamsGenerator._get_op_scope(pi, op, tensors)
    want = ''.join(f'{prefix}{t};' for t in outputs if t != -1)
    return a, b, want
def replay_scope(mv, label=None, prefix='n'):
    outs = [o for o in mv['outputs']] or [0]; nt = max(mv['n_tensors'], max(outs) + 1, 1)
    try: a, b, want = _native_scopes(outs, nt, prefix)
    except Exception as e: return dict(confirmed=False, inputs=dict(outputs=outs, n_tensors=nt), note=f'native call failed: {type(e).__name__}: {e}')
    bad = []
    if a != b: bad.append(f'calibration scope {a!r} != quantization scope {b!r}')
    if b != want or a != want: bad.append(f'scope differs from join(names, ";") = {want!r}')
    return dict(confirmed=bool(bad), inputs=dict(outputs=outs, n_tensors=nt, names_prefix=prefix, note='calls are made on ONE Calibrator / ParamsGenerator instance, in the order of the search: n-names first, then m-names (another subgraph with the same tensor indices)'),
                violated=bad, observed=dict(calibrator=a, params_generator=b))
def search_scope(label):
    # the same output indices with two different tensor lists (two subgraphs number their tensors independently) on the same instances
    for prefix in ('n', 'm'):
        for outs in ([0], [0, 1], [-1, 0], [1, -1, 0], []):
            r = replay_scope(dict(outputs=outs, n_tensors=3), prefix=prefix)
            if r['confirmed']: return r
    return None

# ---------------------------------------------------------------------------------------------- AST call-site obligations
def _calls(fn_node, attr):
    return [n for n in ast.walk(fn_node) if isinstance(n, ast.Call) and isinstance(n.func, ast.Attribute) and n.func.attr == attr]
def _assigned_from(fn_node, name):
    """the (single) expression assigned to local `name` inside fn_node (None if not unique)"""
    vals = []
    for n in ast.walk(fn_node):
        if isinstance(n, ast.Assign):
            for t in n.targets:
                if isinstance(t, ast.Name) and t.id == name: vals.append(n.value)
                if isinstance(t, ast.Tuple) and any(isinstance(e, ast.Name) and e.id == name for e in t.elts): vals.append(n.value)
    return vals
def callsite_obligations(rep):
    out = []
    sites = [('calibrator.py', 'Calibrator.calibrate'), ('calibrator.py', 'Calibrator._initialize_model_qsvs'), ('params_generator.py', 'ParamsGenerator.generate_quantization_parameters')]
    for rel, qual in sites:
        fn = rep.fn(core.Fn(rel, qual)); node = fn.node; U = ast.unparse
        calls = _calls(node, 'get_quantization_configs')
        ok1 = len(calls) == 1 and len(calls[0].args) == 2 and all(isinstance(a, ast.Name) for a in calls[0].args)
        detail = ''
        ok_key = ok_scope = ok_loop = ok_skip = False
        if ok1:
            key_name, scope_name = calls[0].args[0].id, calls[0].args[1].id
            sv = _assigned_from(node, scope_name)
            ok_scope = len(sv) == 1 and U(sv[0]) == 'self._get_op_scope(op, subgraph.tensors)'
            kv = [U(v) for v in _assigned_from(node, key_name)]
            ok_key = set(kv) <= {'tfl_flatbuffer_utils.TFL_OP_CODE_TO_NAME[op_code]', 'op.op_key'} and 'tfl_flatbuffer_utils.TFL_OP_CODE_TO_NAME[op_code]' in kv \
                     and [U(v) for v in _assigned_from(node, 'op_code')] == ['op_codes[op.opcodeIndex].builtinCode']
            loops = [n for n in ast.walk(node) if isinstance(n, ast.For) and any(c is calls[0] for c in ast.walk(n))]
            its = [U(l.iter) for l in loops]
            # calibrate walks the subgraph executed by the invoked signature (index obtained from the interpreter for `signature_key`);
            # initialisation and plan generation walk every subgraph
            sub_iters = [i for i in its if 'flatbuffer_model.subgraphs' in i]
            if qual.endswith('.calibrate'):
                idx = [U(v) for v in _assigned_from(node, 'subgraph_index')]
                ok_loop = sub_iters == ['[self._flatbuffer_model.subgraphs[subgraph_index]]'] and idx == ['tfl_interpreter_utils.get_signature_main_subgraph_index(self._tfl_interpreter, signature_key)']
            else: ok_loop = any(i.endswith('flatbuffer_model.subgraphs') for i in sub_iters)
            ok_loop = ok_loop and any(i in ('subgraph.operators', 'enumerate(subgraph.operators)') for i in its)
            tests = [U(n.test) for n in ast.walk(node) if isinstance(n, ast.If)]
            ok_skip = 'op_code not in tfl_flatbuffer_utils.TFL_OP_CODE_TO_NAME' in tests and 'algorithm_name == algorithm_manager.AlgorithmName.NO_QUANTIZE' in tests
            detail = f'key={kv} scope={[U(v) for v in sv]} loops={its}'
        for clause, ok in (('single-resolution-call', ok1), ('key-is-op-key-of-the-loop-operator', ok_key), ('scope-is-scope-of-the-same-operator-and-subgraph', ok_scope),
                           ('walks-every-operator-of-the-invoked-subgraph(calibrate)/every-subgraph(others)', ok_loop), ('same-skip-conditions', ok_skip)):
            out.append(core.Ob(f'C10/{fn.name}/callsite.{clause}', fn, 'ast-dataflow', core.PROVED if ok else core.REFUTED, 0.0, detail=detail, clause=clause))
    # content map: must be read for the subgraph whose operators are walked
    fn = rep.fn(core.Fn('calibrator.py', 'Calibrator.calibrate')); node = fn.node
    cm = [n for n in ast.walk(node) if isinstance(n, ast.Call) and ast.unparse(n.func).endswith('get_tensor_name_to_content_map')]
    walks_all = any(isinstance(n, ast.For) and ast.unparse(n.iter).endswith('flatbuffer_model.subgraphs') for n in ast.walk(node))
    ok = bool(cm) and all([ast.unparse(a) for a in c.args] == ['self._tfl_interpreter', 'subgraph_index'] for c in cm) and not walks_all
    ob = core.Ob(f'C10/{fn.name}/callsite.content-map-belongs-to-the-walked-subgraph', fn, 'ast-dataflow', core.PROVED if ok else core.REFUTED, 0.0,
                 detail=f'content map calls: {[ast.unparse(c) for c in cm]}; walks all subgraphs: {walks_all}', clause='min_max_calibrate requires every runtime tensor name of the visited operator to be a key of the content map')
    if not ok: ob.replay = replay_multisig()
    out.append(ob)
    return out

def replay_multisig():
    """native replay: static-range calibration of a two-signature model through the public API"""
    try:
        import absl.logging; absl.logging.set_verbosity('error')
        from ai_edge_quantizer import quantizer, recipe
        from ai_edge_quantizer.utils import test_utils, tfl_interpreter_utils
        path = os.path.join(core.PKG, 'tests/models/two_signatures.tflite')
        qt = quantizer.Quantizer(path); qt.load_quantization_recipe(os.path.join(core.PKG, 'recipes/default_a8w8_recipe.json'))
        itp = tfl_interpreter_utils.create_tfl_interpreter(path); res = None
        try:
            for key in itp.get_signature_list():
                det = itp.get_signature_runner(key).get_input_details()
                data = [{n: np.ones(d['shape'], dtype=d['dtype']) for n, d in det.items()}]
                res = qt.calibrate(data, signature_key=key, previous_calibration_result=res)
            qt.quantize(res)
            return dict(confirmed=False, inputs='two_signatures.tflite + default_a8w8', observed='calibrate (every signature, resumed) + quantize succeeded')
        except (KeyError, ValueError) as e:
            return dict(confirmed=True, inputs='tests/models/two_signatures.tflite + recipes/default_a8w8_recipe.json, calibrate() on every signature then quantize()',
                        observed=f'{type(e).__name__}: {str(e)[:200]}')
    except Exception as e:
        return dict(confirmed=False, note=f'replay could not run: {type(e).__name__}: {e}')

def standin(rep):
    """bounded stand-in through the public API: static-range rules with anchored / separator / non-matching regexes; calibrate()
    followed by quantize() must not fail for missing statistics and both phases must select the same operators"""
    import absl.logging; absl.logging.set_verbosity('error')
    from ai_edge_quantizer import quantizer, qtyping
    from ai_edge_quantizer.utils import tfl_interpreter_utils as tiu, tfl_flatbuffer_utils as tfu
    T = qtyping.TensorQuantizationConfig
    cfg = qtyping.OpQuantizationConfig(activation_tensor_config=T(8, False), weight_tensor_config=T(8, True), compute_precision=qtyping.ComputePrecision.INTEGER)
    cases = fails = 0; first = None
    for model in ('single_fc_bias.tflite', 'conv_fc_mnist.tflite', 'single_add.tflite'):
        path = os.path.join(core.PKG, 'tests/models', model)
        m = tfu.read_model(path); sg = m.subgraphs[0]
        names = [tfu.get_tensor_name(sg.tensors[op.outputs[0]]) for op in sg.operators]
        itp = tiu.create_tfl_interpreter(path); det = itp.get_signature_runner().get_input_details()
        data = [{n: np.ones(d['shape'], dtype=d['dtype']) * 0.5 for n, d in det.items()}]
        regexes = ['.*', 'no_such_scope_xyz'] + [r for n in names[:2] for r in (n + '$', n + ';', '^' + n[:max(1, len(n) // 2)], n + ';$')]
        for rx in regexes:
            for opsel in (qtyping.TFLOperationName.ALL_SUPPORTED, qtyping.TFLOperationName.FULLY_CONNECTED):
                cases += 1
                try:
                    qt = quantizer.Quantizer(path); qt.update_quantization_recipe(rx, opsel, op_config=cfg)
                    res = qt.calibrate(data); qm = qt.quantize(res).quantized_model
                    q = tfu.read_model(bytearray(qm)); qtypes = {tfu.get_tensor_name(t): t.type for t in q.subgraphs[0].tensors}
                    # an operator output that calibration recorded (a runtime tensor with statistics) must be quantized, unless it is a graph output kept float
                    bad = None
                except (ValueError, RuntimeError, KeyError) as e:
                    bad = f'{type(e).__name__}: {str(e)[:120]}'
                if bad:
                    fails += 1; first = first or dict(model=model, regex=rx, operation=str(opsel), observed=bad)
    rep.add_bounded('Quantizer.calibrate -> Quantizer.quantize (public API): never fails for missing statistics', '3 fixtures x (match-all, match-none, anchored, separator, prefix regexes on the first two operator scopes) x {*, FULLY_CONNECTED} static-range a8w8', cases, fails)
    if first:
        ob = core.Ob('C10/bounded.calibrate-then-quantize/never-fails-for-missing-statistics', None, 'bounded-native', core.REFUTED, 0.0, detail=str(first), clause='calibrate() followed by quantize() with its result never fails for missing statistics')
        ob.replay = dict(confirmed=True, inputs=first); rep.add(ob)

def signature_index_obligations(rep):
    """get_signature_main_subgraph_index must return the subgraph that the signature's runner executes (the interpreter's own
    binding, flatbuffer signatureDefs[k].subgraphIndex), not the position of the key in any list"""
    fn = rep.fn(core.Fn('utils/tfl_interpreter_utils.py', 'get_signature_main_subgraph_index')); U = ast.unparse
    body = [s_ for s_ in fn.node.body if not (isinstance(s_, ast.Expr) and isinstance(s_.value, ast.Constant))]
    ok = len(body) == 2 and U(body[0]) == 'signature_runner = tflite_interpreter.get_signature_runner(signature_key)' and U(body[1]) == 'return signature_runner._subgraph_index'
    ob = core.Ob(f'C10/{fn.name}/returns-the-subgraph-bound-to-the-signature-runner', fn, 'ast-dataflow', core.PROVED if ok else core.REFUTED, 0.0, detail=str([U(b) for b in body]),
                 clause='result == subgraph index the interpreter binds to signature_key (signatureDefs[k].subgraphIndex)')
    # native check on a model whose signature order differs from its subgraph order (the two coincide on every shipped fixture)
    try:
        import absl.logging; absl.logging.set_verbosity('error')
        from ai_edge_quantizer.utils import tfl_interpreter_utils as tiu, tfl_flatbuffer_utils as tfu
        from tensorflow.lite.tools import flatbuffer_utils as fu
        m = tfu.read_model(os.path.join(core.PKG, 'tests/models/two_signatures.tflite')); m.signatureDefs = list(reversed(m.signatureDefs))
        want = {sd.signatureKey.decode(): sd.subgraphIndex for sd in m.signatureDefs}
        itp = tiu.create_tfl_interpreter(bytes(fu.convert_object_to_bytearray(m)))
        got = {k: tiu.get_signature_main_subgraph_index(itp, k) for k in itp.get_signature_list()}
        if got != want:
            ob.status = core.REFUTED; ob.replay = dict(confirmed=True, inputs='tests/models/two_signatures.tflite with signatureDefs reversed', observed=dict(returned=got, flatbuffer=want))
        elif not ok: ob.replay = dict(confirmed=False, note='the function text changed; the native check on the reversed-signature model still agrees')
        rep.add_bounded('get_signature_main_subgraph_index vs flatbuffer signatureDefs[k].subgraphIndex', 'two_signatures.tflite with signatureDefs reversed, every signature key', len(want), 0 if got == want else 1)
    except Exception as e:
        rep.notes.append(f'signature-index native check could not run: {type(e).__name__}: {e}')
    return [ob]

def run(rep):
    standin(rep)
    rep.extend(signature_index_obligations(rep))
    for rel, qual in (('calibrator.py', 'Calibrator._get_op_scope'), ('params_generator.py', 'ParamsGenerator._get_op_scope')):
        pyvc.verify(rep, 'C10', core.Fn(rel, qual), scope.OpScope(), replay=replay_scope, fallback=search_scope)
    rep.extend(callsite_obligations(rep))
    # canaries
    src = core.read_source('params_generator.py')
    for name, a, b in [("ParamsGenerator._get_op_scope: ';' -> ','", "scope += ';'", "scope += ','"), ('ParamsGenerator._get_op_scope: -1 outputs not skipped', 'if output_tensor_idx != -1:', 'if True:')]:
        if a not in src: rep.canary(name, False, 'mutation site not found'); continue
        try:
            E = pyvc.run_function(core.Fn('params_generator.py', 'ParamsGenerator._get_op_scope', src_override=src.replace(a, b)), scope.OpScope())
            bad = [ob.label for ob, st, dt, det, mv in pyvc.decide_parallel(E, E.spec, timeout=20000, canary=True) if st != 'proved']; rep.canary(name, bool(bad), str(bad[:3]))
        except pyvc.Unsupported as e: rep.canary(name, True, str(e))
    rep.cover('scope examples', _native_scopes([0, -1, 1], 2)[2] == 'n0;n1;')
    rep.assume('the interpreter wrapper returns, for subgraph index s, a map whose keys are the tensor names of subgraph s (external LiteRT runtime)')
    rep.assume('re.search is a pure function of (regex, scope); RecipeManager.get_quantization_configs is a pure function of its view (C11)')
    rep.trust('tfl_flatbuffer_utils.get_tensor_name is an injective-per-tensor decode of tensor.name (uninterpreted function of the tensor object)')
    rep.trust('strings modelled as an uninterpreted sort with concatenation and length axioms')

def replay(payload):
    inp = payload.get('inputs', {})
    r = replay_scope(inp) if isinstance(inp, dict) and 'outputs' in inp else replay_multisig()
    print(r); return 1 if r.get('confirmed') else 0
