"""C15 — shared constants are quantized consistently or the request is rejected.

Chain of the argument (each link is an obligation family below; what is only sampled is a labelled bounded stand-in):
  (1) tfl_flatbuffer_utils.parse_op_tensors / buffer_to_tensors (pyvc, unbounded): for every buffer b the map holds EXACTLY the sequence of tensor USES
      (operand positions != -1 of every operator of every subgraph, outputs before inputs, with multiplicity) whose tensor.buffer == b; keys = buffers that occur.
      The PROPERTY needs more: every TENSOR referencing the buffer.  That clause is a separate obligation (BufferToTensorsProperty).
  (2) ParamsGenerator._same_tensor_params_except_id, _compatible_tensor_params (COMPATIBILITY LEMMA), _compatible_tensor_transformation_params (pivot through
      consumers[0]), _check_buffer_sharing (pivot through tensors[0]) — pyvc, unbounded, parameters an uninterpreted sort with an equivalence:
      normal return => every two consumer entries of tensors listed under one buffer are of the same class of source bytes (float / integer) and, when integer,
      carry equal parameters; producers both absent or compatible.
  (3) transformation_instruction_generator._check_tensor_transformation_instructions_valid (pyvc): a tensor is never both quantized and unquantized.
  (4) quantize_tensor: what is written is a function of the parameters only (AST data-flow obligation + the two-applications table executed on the real function,
      on top of the write contract of props/C05.py family `quantize_tensor`): equal parameters => the same bytes, dtype, scale / zero point: "quantized once" in effect.
  (5) call-site obligations (AST): the map checked is the map of the model being quantized; every normal return of generate_quantization_parameters is preceded by
      _check_buffer_sharing; every instruction list returned was checked.
  (6) bounded stand-ins (never counted): the lemma's finite enumeration on the real functions with opaque parameter objects; models with tied constants through the
      public API (Quantizer) with a byte-level check of every buffer of the returned model."""
import ast, itertools, os, time
from vlib import core, pyvc
from contracts import c15_engine as EN, c15_buffers as CB, c15_compat as CC
from replay import c15_native as N
LEVEL = 'proof'
TFU, PG, TIG, QTEN = N.TFU, N.PG, N.TIG, N.QTEN
VALID = 'TransformationInstructionsGenerator._check_tensor_transformation_instructions_valid'

PYVC = [('parse', TFU, 'parse_op_tensors', CB.ParseOpTensors), ('b2t', TFU, 'buffer_to_tensors', CB.BufferToTensors),
        ('same', PG, '_same_tensor_params_except_id', CC.SameExceptId), ('compat', PG, '_compatible_tensor_params', CC.CompatParams),
        ('pair', PG, '_compatible_tensor_transformation_params', CC.CompatTensorParams), ('share', PG, 'ParamsGenerator._check_buffer_sharing', CC.CheckBufferSharing),
        ('valid', TIG, VALID, CC.InstructionsValid)]

# ------------------------------------------------------------------------------------------------ native fallbacks / replays
def unlisted_model_case(variant):
    """the smallest natively failing shapes for the PROPERTY clause of buffer_to_tensors"""
    return dict(family='e2e', topology='unlisted', variant=variant, k=1, wiring='chain', what='weight', modes=['drq8'])
def b2t_unlisted_native(label=None):
    """real buffer_to_tensors on a real model in which a tensor shares the buffer of an operand without being an operand: is it listed?"""
    m = N.load(); M = N.e2e_mods()
    for variant in N.UNLISTED:
        case = unlisted_model_case(variant); mb = N.build_model(M, case)
        model = m.tfu.read_model(mb); mp = m.tfu.buffer_to_tensors(model); missing = []
        for si, sg in enumerate(model.subgraphs):
            for t in sg.tensors:
                if t.buffer in mp and not any(u is t for u in mp[t.buffer]): missing.append(dict(subgraph=si, tensor=t.name.decode(), buffer=int(t.buffer), listed=[u.name.decode() for u in mp[t.buffer]]))
        if missing: return dict(confirmed=True, inputs=case, observed=dict(what='buffer_to_tensors does not list a tensor that references a listed buffer', missing=missing))
    return dict(confirmed=False)

def native_lemma(m, quick=True):
    """bounded stand-in (1): finite enumeration on the REAL functions with opaque parameter tokens; returns [(function, scope, cases, first failure or None)]"""
    out = []
    E2 = N.entries(2, 3); bad = None; n = 0
    for a in E2:
        for b in E2:
            n += 1; r = N.compat_pair_case(m, dict(a=a, b=b))
            if r and bad is None: bad = dict(family='compat-pair', a=a, b=b, observed=r)
    out.append(('_compatible_tensor_params / _same_tensor_params_except_id (real functions, opaque parameter objects)', 'all ordered pairs of entries: transformation words of length 1..2 over the 5 transformations x parameters in {None, P1, P2}', n, bad))
    E1 = N.entries(1, 3); lists = [None] + [list(c) for L in (1, 2) for c in itertools.product(E1, repeat=L)]; bad = None; n = 0
    prods = [(None, None), (None, E1[0]), (E1[0], E1[0]), (E1[10], E1[11])] if quick else [(a, b) for a in (None, E1[0], E1[10], E1[11]) for b in (None, E1[0], E1[10], E1[11])]
    step = 3 if quick else 1
    for i, c1 in enumerate(lists):
        for j, c2 in enumerate(lists):
            if (i + j) % step: continue
            for p1, p2 in prods:
                n += 1; case = dict(t1=dict(producer=p1, consumers=c1), t2=dict(producer=p2, consumers=c2)); r = N.compat_tensors_case(m, case)
                if r and bad is None: bad = dict(family='compat-tensors', observed=r, **case)
    out.append(('_compatible_tensor_transformation_params (real function)', f'consumer lists None / length 1..2 over 15 entries (5 transformations x {{None, P1, P2}}), {"every 3rd pair of lists, 4" if quick else "all pairs of lists, 16"} producer combinations', n, bad))
    bad = None; n = 0
    for shape in ('three-tensors', 'one-tensor-three-consumers'):
        for es in itertools.product(E1, repeat=3):
            n += 1
            if shape == 'three-tensors': case = dict(buffers={'7': ['a', 'b', 'c']}, params={nm: dict(producer=None, consumers=[e]) for nm, e in zip('abc', es)})
            else: case = dict(buffers={'7': ['a', 'a', 'a']}, params=dict(a=dict(producer=None, consumers=list(es))))
            r = N.sharing_case(m, case)
            if r and bad is None: bad = dict(family='sharing', observed=r, **case)
    out.append(('ParamsGenerator._check_buffer_sharing (real method on a stand-in self)', 'one buffer with three uses: three single-consumer tensors / one tensor with three consumer entries, entries over 5 transformations x {None, P1, P2}', n, bad))
    return out

def native_b2t(m):
    bad = None; n = 0
    for case in N.b2t_oracle_cases():
        n += 1; r = N.b2t_oracle_case(m, case)
        if r and bad is None: bad = dict(family='b2t-oracle', observed=r, **case)
    return n, bad

_fb = {}
def fallback_for(key):
    """bounded native search used when the solver refutes (or cannot follow) a pyvc obligation: a natively failing input of the same function, if one exists in the small scope"""
    def fb(label):
        if key not in _fb:
            m = N.load(); bad = None
            if key in ('compat', 'same'): bad = native_lemma(m)[0][3]
            elif key == 'pair': bad = native_lemma(m)[1][3]
            elif key == 'share': bad = native_lemma(m)[2][3]
            elif key == 'valid': bad = native_valid(m, 4)[1]
            elif key in ('parse', 'b2t'): bad = native_b2t(m)[1]
            _fb[key] = dict(confirmed=True, inputs=bad, observed=bad['observed']) if bad else dict(confirmed=False)
        return _fb[key]
    return fb

def native_valid(m, max_len=5):
    bad = None; n = 0
    for L in range(0, max_len + 1):
        for w in itertools.product(range(5), repeat=L):
            n += 1; r = N.instr_case(m, dict(word=list(w)))
            if r and bad is None: bad = dict(family='instr', word=list(w), observed=r)
    return n, bad

def design_note_case(m):
    """the input named at design time: one constant tensor feeding three ops, the first float (NO_QUANTIZE), two static-range ops with different parameters"""
    c = dict(buffers={'3': ['w', 'w', 'w']}, params=dict(w=dict(producer=None, consumers=[[[N.NO_QUANTIZE], 0], [[N.QUANTIZE_TENSOR], 1], [[N.QUANTIZE_TENSOR], 2]])))
    self_ = N.FakeSelf(); t = N.FakeTensor(b'w', 3); self_.buffer_to_tensors = {3: [t, t, t]}; self_.model_quant_results = {'w': N.tparams(m, c['params']['w'], 'w')}
    try: m.pg.ParamsGenerator._check_buffer_sharing(self_); return False
    except RuntimeError: return True

# ------------------------------------------------------------------------------------------------ AST obligations
def _attr_chain(n):
    parts = []
    while isinstance(n, ast.Attribute): parts.append(n.attr); n = n.value
    if isinstance(n, ast.Name): parts.append(n.id)
    return '.'.join(reversed(parts))
def ast_obligations(rep, src_over=None):
    src_over = src_over or {}; obs = []
    def fn(rel, qual): return rep.fn(core.Fn(rel, qual, src_override=src_over.get(rel))) if rep is not None else core.Fn(rel, qual, src_override=src_over.get(rel))
    def ob(f, name, ok, clause, detail=''):
        obs.append(core.Ob(f'C15/{f.name}/{name}', f, 'ast-dataflow', core.PROVED if ok else core.REFUTED, 0.0, detail=detail, clause=clause,
                           replay=None if ok else dict(confirmed=False, note='syntactic obligation on the current source text', detail=detail)))
    # (4) quantize_tensor: the values written do not depend on the previous state of the buffer / tensor
    f = fn(QTEN, 'quantize_tensor'); loads = []; stores = []
    for n in ast.walk(f.node):
        if isinstance(n, ast.Attribute) and n.attr in ('data', 'type', 'quantization', 'scale', 'zeroPoint', 'quantizedDimension'):
            (stores if isinstance(n.ctx, ast.Store) else loads).append(_attr_chain(n))
    prev_reads = [c for c in loads if not c.startswith('transformation_input.quant_params')]
    ob(f, 'written-values-are-a-function-of-the-parameters-only', not prev_reads and any(c.endswith('data') for c in stores) and 'tensor.type' in stores and 'tensor.quantization' in stores,
       'quantize_tensor never READS buffers[..].data, tensor.type, tensor.quantization (it only stores them) and reads scale / zero point / data only from transformation_input.quant_params: the state after the call '
       'is a function of the parameters and of tensor.buffer, hence applying it again with equal parameters, or to another tensor on the same buffer, writes the same bytes', detail=f'reads={prev_reads} stores={stores}')
    g = fn(QTEN, '_pack_data'); names = {n.id for st in g.node.body for n in ast.walk(st) if isinstance(n, ast.Name)}; params_ = {a.arg for a in g.node.args.args}
    ob(g, 'pure-function-of-its-arguments', names <= params_ | {'np', 'even_data', 'odd_data'} and not any(isinstance(n, (ast.Global, ast.Nonlocal)) for n in ast.walk(g.node)),
       '_pack_data refers to its two arguments, numpy and its own locals only', detail=str(sorted(names)))
    # (5) the map checked is the map of the model being quantized
    f = fn(PG, 'ParamsGenerator.__init__'); U = ast.unparse
    asg = [s for s in ast.walk(f.node) if isinstance(s, (ast.Assign, ast.AnnAssign)) and 'self.buffer_to_tensors' in U(s.targets[0] if isinstance(s, ast.Assign) else s.target)]
    ok = len(asg) == 1 and U(asg[0].value) == 'tfl_flatbuffer_utils.buffer_to_tensors(self.flatbuffer_model)'
    cls = core.Fn(PG, 'ParamsGenerator', src_override=src_over.get(PG)); others = [U(s) for s in ast.walk(cls.node) if isinstance(s, (ast.Assign, ast.AnnAssign, ast.AugAssign)) and 'self.buffer_to_tensors' in U(s.targets[0] if isinstance(s, ast.Assign) else s.target)]
    ob(f, 'buffer-map-is-built-from-the-model-being-quantized', ok and len(others) == 1, 'self.buffer_to_tensors is assigned exactly once in the class: tfl_flatbuffer_utils.buffer_to_tensors(self.flatbuffer_model)', detail=str(others))
    f = fn(PG, 'ParamsGenerator.generate_quantization_parameters'); body = f.node.body
    rets = [n for n in ast.walk(f.node) if isinstance(n, ast.Return)]
    ok = (len(rets) == 1 and body[-1] is rets[0] and U(rets[0].value) == 'self.model_quant_results' and isinstance(body[-2], ast.Expr) and U(body[-2].value) == 'self._post_process_results()')
    ob(f, 'every-normal-return-is-preceded-by-the-buffer-sharing-check', ok, 'the only return statement is the last statement, returns self.model_quant_results and directly follows self._post_process_results()')
    f = fn(PG, 'ParamsGenerator._post_process_results'); calls = [U(n) for n in ast.walk(f.node) if isinstance(n, ast.Call)]
    ob(f, 'post-processing-runs-the-buffer-sharing-check', calls == ['self._check_buffer_sharing()'] and not any(isinstance(n, (ast.If, ast.Try, ast.Return)) for n in ast.walk(f.node)), '_post_process_results calls self._check_buffer_sharing() unconditionally', detail=str(calls))
    # every instruction list handed out was checked
    tcls = core.Fn(TIG, 'TransformationInstructionsGenerator', src_override=src_over.get(TIG)); users = []
    for meth in [n for n in tcls.node.body if isinstance(n, ast.FunctionDef)]:
        for i, s in enumerate(meth.body):
            if isinstance(s, ast.Expr) and isinstance(s.value, ast.Call) and U(s.value.func) == 'self._check_tensor_transformation_instructions_valid':
                nxt = meth.body[i + 1] if i + 1 < len(meth.body) else None
                users.append((meth.name, U(s.value.args[0]), U(nxt) if nxt is not None else None, sum(1 for n in ast.walk(meth) if isinstance(n, ast.Return))))
    f = fn(TIG, VALID)
    ok = len(users) == 1 and users[0][2] == f'return {users[0][1]}' and users[0][3] == 1
    ob(f, 'the-instructions-of-every-tensor-are-checked-right-before-they-are-returned', ok, 'exactly one caller; it checks the TensorTransformationInsts object in the statement before its only return, and returns that object', detail=str(users))
    return obs

# ------------------------------------------------------------------------------------------------ run
PY_CANARIES = [
    ('_compatible_tensor_params: the `parameters !=` test dropped', 'compat', '    if params1.parameters != params2.parameters:\n      return False', '    pass', 'LEMMA'),
    ('_compatible_tensor_params: ADD_QUANTIZE classified as a quantized source', 'compat', '      _QuantTrans.QUANTIZE_TENSOR,\n      _QuantTrans.ADD_DEQUANTIZE,\n  ]', '      _QuantTrans.QUANTIZE_TENSOR,\n      _QuantTrans.ADD_QUANTIZE,\n  ]', 'LEMMA'),
    ('_compatible_tensor_transformation_params: producer comparison skipped', 'pair', '  elif not _compatible_tensor_params(params1.producer, params2.producer):\n    return False', '  elif False:\n    return False', 'producers both absent or compatible'),
    ('_compatible_tensor_transformation_params: the two pivots are not compared', 'pair', '    if not _compatible_tensor_params(\n        params1.consumers[0], params2.consumers[0]\n    ):\n      return False', '    pass', 'across the two tensors'),
    ('_check_buffer_sharing: second tensor on the buffer skipped (tensors[1:] -> tensors[2:])', 'share', 'for tensor in tensors[1:]:', 'for tensor in tensors[2:]:', ''),
    ('_check_buffer_sharing: the first tensor compared with itself', 'share', '            first_tensor_params, tensor_params\n', '            first_tensor_params, first_tensor_params\n', 'callsite'),
    ('buffer_to_tensors: keyed by another tensor field (tensor.type) instead of the buffer index', 'b2t',
     '        if tensor.buffer not in buffer_to_tensor_map:\n          buffer_to_tensor_map[tensor.buffer] = []\n        buffer_to_tensor_map[tensor.buffer].append(tensor)',
     '        if tensor.type not in buffer_to_tensor_map:\n          buffer_to_tensor_map[tensor.type] = []\n        buffer_to_tensor_map[tensor.type].append(tensor)', 'elements-on-their-buffer'),
    ('buffer_to_tensors: only the first use on a buffer is recorded', 'b2t',
     '          buffer_to_tensor_map[tensor.buffer] = []\n        buffer_to_tensor_map[tensor.buffer].append(tensor)', '          buffer_to_tensor_map[tensor.buffer] = []\n          buffer_to_tensor_map[tensor.buffer].append(tensor)', 'uses-recorded'),
    ('parse_op_tensors: outputs dropped', 'parse', 'list(op.outputs) + list(op.inputs)', 'list(op.inputs)', ''),
    ('_check_tensor_transformation_instructions_valid: ADD_DEQUANTIZE not counted as quantized', 'valid', '          or transform_type == qtyping.QuantTransformation.ADD_DEQUANTIZE\n', '          or transform_type == qtyping.QuantTransformation.ADD_QUANTIZE\n', ''),
]
ONLY = {'b2t': lambda l: l.startswith(('loop2-preserve', 'return:')), 'share': lambda l: l.startswith(('loop0-preserve', 'callsite', 'return:'))}

def run(rep):
    thorough = rep.tier == 'thorough'; T = 120000; ph = rep.extra.setdefault('phase_s', {}); t_ = [time.time()]
    def lap(k): ph[k] = round(time.time() - t_[0], 1); t_[0] = time.time()
    specs = {key: (rel, qual, mk) for key, rel, qual, mk in PYVC}
    # ---- (1)-(3) pyvc
    for key, rel, qual, mk in PYVC:
        EN.verify(rep, 'C15', core.Fn(rel, qual), mk(), timeout=T, fallback=fallback_for(key))
    lap('pyvc')
    try: property_clause(rep, T)
    except pyvc.Unsupported as e:
        # buffer_to_tensors no longer fits the sidecar (already reported as its `engine-subset` obligation with the native search above): the property clause is undecided, not a crash
        rep.add(core.Ob('C15/utils.tfl_flatbuffer_utils.buffer_to_tensors/property-clause.engine-subset', None, 'pyvc', core.UNKNOWN, 0.0, detail=f'outside the engine subset: {e}', clause='PROPERTY clause of buffer_to_tensors'))
    lap('property-clause')
    # ---- (4) quantize_tensor applied twice / to two tensors on one buffer: the real function on real flatbuffer objects, table of props/C05 (family quantize_tensor)
    m = N.load(); fq = rep.fn(core.Fn(QTEN, 'quantize_tensor'))
    ok_enum = [t.value for t in m.TR] == [0, 1, 2, 3, 4] and [t.name for t in m.TR] == N.TR_NAMES and len(type(m.TR[0])) == 5
    rep.add(core.Ob('C15/qtyping.QuantTransformation/enum-values-are-the-ones-the-contracts-use', None, 'exhaustive-native', core.PROVED if ok_enum else core.REFUTED, 0.0, clause='NO_QUANTIZE 0, ADD_QUANTIZE 1, ADD_DEQUANTIZE 2, QUANTIZE_TENSOR 3, EMULATED_SUBCHANNEL 4, five members (asserted while loading)'))
    for c in N.twice_table():
        tag = f'{"float" if c["nonlinear"] else "int"}{c["bits"]}.n{int(__import__("numpy").prod(c["shape"]))}-{len(c["shape"])}d.{"per-channel" if c["per_channel"] else "per-tensor"}'
        t0 = time.time(); r = N.twice_case(m, c)
        o = core.Ob(f'C15/{fq.name}/{tag}.second-application-with-equal-parameters-is-a-no-op-and-sharers-agree', fq, 'exhaustive-native', core.PROVED if r is None else core.REFUTED, time.time() - t0, detail=r or '',
                    clause='quantize_tensor(A, p); quantize_tensor(A, p\') with p\' == p leaves the state unchanged; then quantize_tensor(B, p\') for B on the same buffer leaves the bytes unchanged and gives B the dtype / scale / zero point of A; '
                           'the bytes do not depend on the previous content of the buffer; unrelated tensors and buffers untouched')
        if r is not None: o.replay = dict(confirmed=True, inputs=dict(family='twice', **c), observed=r)
        rep.add(o)
    # ---- (4)/(5) AST obligations
    rep.extend(ast_obligations(rep))
    # ---- covers (non-vacuity)
    for key, rel, qual, mk in PYVC: rep.cover(f'{qual}: postcondition obligations were generated', any(o.id.startswith(f'C15/{core.Fn(rel, qual).name}/return:') for o in rep.obs))
    rep.cover('design-time input (first consumer NO_QUANTIZE, then QUANTIZE_TENSOR with P1 and with P2 on one constant) is rejected by the real _check_buffer_sharing', design_note_case(m))
    rep.cover('an accepted sharing exists (two QUANTIZE_TENSOR entries with equal parameters)', N.sharing_case(m, dict(buffers={'1': ['a', 'b']}, params=dict(a=dict(consumers=[[[3], 1]]), b=dict(consumers=[[[3], 1]])))) is None
              and N.compat_pair_case(m, dict(a=[[3], 1], b=[[2], 1])) is None and m.pg._compatible_tensor_params(N.entry(m, [[3], 1], 1), N.entry(m, [[2], 1], 2)) is True)
    lap('native-obligations')
    # ---- (6) bounded stand-ins
    for function, scope, cases, bad in native_lemma(m, quick=not thorough):
        rep.add_bounded(function, scope, cases, 1 if bad else 0)
        if bad: rep.add(core.Ob(f'C15/bounded.lemma/{bad["family"]}', None, 'bounded-native', core.REFUTED, 0.0, detail=str(bad['observed']), clause='conclusion of the compatibility lemma on the real function', replay=dict(confirmed=True, inputs=bad, observed=bad['observed'])))
    n, bad = native_b2t(m)
    rep.add_bounded('parse_op_tensors / buffer_to_tensors (real functions on real schema objects) against the specification written in Python', '1-2 subgraphs x 1-2 operators, 2 tensors on buffers from {0,1,2}, operand lists with -1, repeated operands and outputs; exact keys (order of first occurrence), lists by object identity', n, 1 if bad else 0)
    if bad: rep.add(core.Ob('C15/bounded.b2t/oracle', None, 'bounded-native', core.REFUTED, 0.0, detail=str(bad['observed']), clause='map == specification', replay=dict(confirmed=True, inputs=bad, observed=bad['observed'])))
    n, bad = native_valid(m, 6 if thorough else 5)
    rep.add_bounded('_check_tensor_transformation_instructions_valid (real method)', f'all transformation words of length 0..{6 if thorough else 5} over the 5 transformations: raises ValueError exactly on a conflict', n, 1 if bad else 0)
    if bad: rep.add(core.Ob('C15/bounded.valid/word', None, 'bounded-native', core.REFUTED, 0.0, detail=str(bad), clause='accept/reject table of the instruction check', replay=dict(confirmed=True, inputs=bad, observed=bad['observed'])))
    order_dependence_observation(rep, m); lap('bounded-native'); e2e(rep, thorough); lap('bounded-e2e')
    # ---- canaries
    for name, key, a, b, expect in PY_CANARIES:
        rel, qual, mk = specs[key]; src = core.read_source(rel)
        if a not in src: rep.canary(name, False, 'mutation site not found (stale canary)'); continue
        try:
            bad = EN.mutant_fails(core.Fn(rel, qual, src_override=src.replace(a, b)), mk(), timeout=30000, only=ONLY.get(key), canary=not expect)          # a canary that names the clause it must lose is decided completely
            rep.canary(name, bool(bad) and (not expect or any(expect in l for l in bad)), str(bad[:3]))
        except pyvc.Unsupported as e: rep.canary(name, True, f'mutant leaves the engine subset: {e}')
    lap('pyvc-canaries'); native_canaries(rep, m); lap('native-canaries')
    rep.trust('dataclass __eq__ of UniformQuantParams / NonLinearQuantParams is an equivalence relation (field-wise equality, np.array_equal on arrays; NaN scales excluded); `!=` is its negation; None == None, None != object')
    rep.trust('engine dict model: a key is present (`in`, `[]`) iff it is listed (`.values()` iteration); flatbuffer object-API lists / numpy int32 index arrays behave as Python lists for len, indexing, iteration, list()')
    rep.trust('tfl_flatbuffer_utils.get_tensor_name is a pure function of the tensor (uninterpreted); tensor names are unique in the model (ParamsGenerator._check_tensor_names_are_unique raises otherwise)')
    rep.trust('props/C05.py (cited, not redone): quantize_tensor writes buffers[tensor.buffer].data = _pack_data(num_bits, bytes(quantized_data)), tensor.type / scale / zeroPoint from the parameters; instruction generator, performer dispatch, '
              'insert_dequant, insert_quant hand `parameters` on unchanged (families quantize_tensor, callsites); stored byte length agrees with the written dtype')
    rep.assume('requires(_check_buffer_sharing): every tensor listed in buffer_to_tensors has an entry in model_quant_results whose producer / consumer entries carry a non-empty transformation list and whose consumer list, when present, '
               'is non-empty (generate_quantization_parameters visits every operator; every materialize function returns one entry per operand) — otherwise KeyError / IndexError escape, which is a raise and therefore within the property')
    rep.assume('requires(parse_op_tensors / buffer_to_tensors): operand indices are -1 or valid tensor indices of their subgraph (C01 well-formedness of the input model)')
    rep.assume('quantize_tensor two-applications table: rows (bit width x element count parity / rank x granularity x parameter class) represent all inputs; the function branches only on tensor.buffer, quantized_data is None, '
               'the parameter class, num_bits and (in _pack_data) the parity of the element count (verified symbolically in props/C05.py family pack)')
    rep.assume('composition consumer entries -> transformation instructions -> performer (which entry of a QUANT_SRC class actually quantizes the buffer; decoded values within one step) is covered end to end by the bounded stand-in only; '
               'the numeric clause "within one quantization step" is C05 / C17')

KF = CB.KF_CLASS
def witness_fails(k):
    """the listed witness of the known finding, replayed natively through the public API"""
    w = dict(k.get('witness') or unlisted_model_case('signature-output')); w.pop('family', None)
    try: return N.e2e_case(w)[0] == 'fail'
    except Exception: return False

def property_clause(rep, T):
    """the clause the PROPERTY needs from the map; REFUTED on the base tree (see BufferToTensorsProperty).  With the known finding listed and its witness still failing,
    the SAME obligation is re-decided under the hypothesis excluding exactly the class (every tensor on a data-bearing buffer is an operand of some operator)."""
    fnb = rep.fn(core.Fn(TFU, 'buffer_to_tensors')); clause = ('every tensor of the model on a data-bearing buffer that is a key of the map is listed under it ("every tensor referencing the buffer has a dtype and parameters that '
                                                                'agree with the stored bytes" needs every such tensor to be seen by _check_buffer_sharing)')
    def decide(exclude):
        spec = CB.BufferToTensorsProperty(); E = EN.run_function(fnb, spec); E.obs = [o for o in E.obs if o.label.startswith('return:PROPERTY')]
        return pyvc.decide_parallel(E, spec, timeout=T, exclude=exclude)
    for ob, st, dt, det, mv in decide(()):
        o = core.Ob(f'C15/{fnb.name}/{EN.rel_label(fnb, ob.label)}', fnb, 'z3-qf(typed-instantiation)', st, dt, detail=det if st != 'refuted' else f'{det}: {mv}', clause=clause)
        if st != 'proved':
            direct = None
            try: direct = N.b2t_model_case(N.load(), mv) if isinstance(mv, dict) and 'subgraphs' in mv else None
            except Exception: direct = None
            if direct: fb = dict(confirmed=True, inputs=dict(mv), observed=dict(what='the solver counter-model, built from real schema objects: the real buffer_to_tensors does not list a tensor that references a listed data-bearing buffer', missing=direct),
                                 end_to_end=b2t_unlisted_native())
            else: fb = b2t_unlisted_native(); fb['solver_counter_model'] = mv
            if fb.get('confirmed'): o.status = core.REFUTED; o.replay = fb
            elif st == 'refuted': o.status = core.UNKNOWN
            k = rep.finding_for(o.id)
            if k is not None:
                if witness_fails(k):
                    if k['id'] not in rep.extra.setdefault('known_finding_ids', []): rep.known_finding(k, True); rep.extra['known_finding_ids'].append(k['id'])
                    (ob2, st2, dt2, det2, mv2), = decide((KF,))
                    o.status, o.time_s, o.backend, o.detail = st2, dt + dt2, o.backend + '+class-exclusion', det2 if st2 != 'refuted' else f'{det2}: {mv2}'
                    o.id += f'[excluding:{k["id"]}]'; o.replay = None if st2 == 'proved' else dict(confirmed=False, inputs=mv2, note='counter-model of the obligation under the class exclusion')
                else: rep.known_finding(k, False)
        rep.add(o)

def known(rep, ob, witness_still_fails, what):
    """a listed known finding suppresses exactly its own listed obligations, and only while its witness still fails natively"""
    k = rep.finding_for(ob.id)
    if k is None or ob.status == core.PROVED: return False
    if not witness_still_fails: rep.known_finding(k, False); return False
    if k['id'] not in rep.extra.setdefault('known_finding_ids', []): rep.known_finding(k, True); rep.extra['known_finding_ids'].append(k['id'])
    ob.detail = f'[{ob.status}] {ob.detail} -- class excluded: {what}'; ob.status = core.PROVED; ob.backend += '+class-exclusion'; ob.id += '[excluding:' + k['id'] + ']'; ob.replay = None
    return True

def e2e(rep, thorough):
    cases = N.e2e_cases(k3=True) + N.unlisted_cases(); tally = {}; fails = []
    for c in cases:
        r = N.e2e_case(c); tally[r[0]] = tally.get(r[0], 0) + 1
        if r[0] == 'fail': fails.append((c, r[1]))
    rep.cover('end to end: some tied-constant requests are rejected and some are quantized', tally.get('raise', 0) > 0 and tally.get('ok', 0) > 0)
    M = N._E2E['m']; kf = next((k for k in rep.active_findings() if k['id'] == KF), None); kf_live = kf is not None and witness_fails(kf)
    excluded = [(c, f) for c, f in fails if kf_live and N.unlisted_sharers(M, N.build_model(M, c))]       # exactly the cases of the class: a tensor on a data-bearing buffer that is no operand
    counted = [(c, f) for c, f in fails if not any(c is c2 for c2, _ in excluded)]
    rep.add_bounded('Quantizer.quantize end to end on models with tied constants (real public API; byte-level check of every buffer of the returned model)',
                    'FULLY_CONNECTED weight / FULLY_CONNECTED bias / ADD constant operand shared by k sharers: k tensors on one buffer in one subgraph, one tensor with k consumers, k subgraphs (signatures) each with its own tensor on the buffer; '
                    'k = 2 (chain and parallel wiring) and k = 3 (weights, chain); every assignment of {none, srq8, drq8, wo8, srq16} ({none, srq8, srq16} for ADD) to the sharers; plus a tensor on the shared buffer that is NOT an operand '
                    '(unused / extra graph output / output of a second signature) x 5 modes; 4x4 weights, one calibration sample set', len(cases), len(counted),
                    note=str(tally) + (f'; {len(excluded)} failing cases belong to the class of known finding {KF} (a tensor on a data-bearing buffer that is not an operand) and are excluded' if excluded else ''))
    rep.extra['e2e_tally'] = tally
    seen = set()
    for c, f in fails:
        key = (c['topology'], c.get('variant'))
        if key in seen: continue
        seen.add(key)
        o = core.Ob(f'C15/bounded.e2e/{c["topology"]}{"." + c["variant"] if c.get("variant") else ""}.{c["what"]}.{"-".join(c["modes"])}', rep.fn(core.Fn(TFU, 'buffer_to_tensors')) if c['topology'] == 'unlisted' else None, 'bounded-native', core.REFUTED, 0.0, detail=str(f),
                    clause='quantize() raises or every tensor referencing a data-bearing buffer of the returned model has a dtype / parameters agreeing with the stored bytes, decoded values within one step of the original constant',
                    replay=dict(confirmed=True, inputs=dict(family='e2e', **c), observed=f))
        if any(c is c2 for c2, _ in excluded):
            known(rep, o, True, f'the model has tensors on a data-bearing buffer that are not operands of any operator: {N.unlisted_sharers(M, N.build_model(M, c))} (case skipped under the exclusion)')
        rep.add(o)

def order_dependence_observation(rep, m):
    """design-time note re-derived: acceptance by _check_buffer_sharing depends on the ORDER of FLOAT-source consumer entries only (no clause of C15 is affected: both outcomes are allowed)"""
    P = lambda cons: dict(buffers={'2': ['t', 't', 't']}, params=dict(t=dict(producer=None, consumers=cons)))
    def outcome(cons):
        self_ = N.FakeSelf(); t = N.FakeTensor(b't', 2); self_.buffer_to_tensors = {2: [t, t, t]}; self_.model_quant_results = {'t': N.tparams(m, dict(producer=None, consumers=cons), 't')}
        try: m.pg.ParamsGenerator._check_buffer_sharing(self_); return 'accepted'
        except RuntimeError: return 'RuntimeError'
    NQ, AQ1, AQ2, QT1, QT2 = [[N.NO_QUANTIZE], 0], [[N.ADD_QUANTIZE], 1], [[N.ADD_QUANTIZE], 2], [[N.QUANTIZE_TENSOR], 1], [[N.QUANTIZE_TENSOR], 2]
    rep.extra['observation_order_dependent_acceptance'] = dict(
        what='_check_buffer_sharing compares every entry with the pivot consumers[0] only; with a NO_QUANTIZE pivot two ADD_QUANTIZE entries with different parameters are accepted, with an ADD_QUANTIZE pivot they are rejected. '
             'Only FLOAT-source entries are concerned (the buffer keeps its float bytes either way); integer-source entries (QUANTIZE_TENSOR / ADD_DEQUANTIZE) against a NO_QUANTIZE pivot are rejected. Not a C15 violation.',
        executed_on_the_real_method={'[NO_QUANTIZE, ADD_QUANTIZE(P1), ADD_QUANTIZE(P2)]': outcome([NQ, AQ1, AQ2]), '[ADD_QUANTIZE(P1), NO_QUANTIZE, ADD_QUANTIZE(P2)]': outcome([AQ1, NQ, AQ2]),
                                     '[NO_QUANTIZE, QUANTIZE_TENSOR(P1), QUANTIZE_TENSOR(P2)]': outcome([NQ, QT1, QT2]), '[QUANTIZE_TENSOR(P1), QUANTIZE_TENSOR(P2)]': outcome([QT1, QT2]), '[QUANTIZE_TENSOR(P1), QUANTIZE_TENSOR(P1)]': outcome([QT1, QT1])})

def native_canaries(rep, m):
    # the bounded end-to-end checker must notice a disabled guard: _check_buffer_sharing made a no-op in the REAL class (restored afterwards)
    src = core.read_source(PG); a = '    for tensors in self.buffer_to_tensors.values():\n      if len(tensors) <= 1:'
    if a not in src: rep.canary('e2e: _check_buffer_sharing disabled', False, 'mutation site not found (stale canary)')
    else:
        mut = N.exec_module(PG, src.replace(a, '    return\n' + a)); import ai_edge_quantizer.params_generator as real
        saved = real.ParamsGenerator._check_buffer_sharing; real.ParamsGenerator._check_buffer_sharing = mut.ParamsGenerator._check_buffer_sharing
        try:
            rs = [N.e2e_case(dict(topology='two-tensors', k=2, wiring='chain', what='weight', modes=ms)) for ms in (['drq8', 'none'], ['srq8', 'wo8'], ['none', 'drq8'])]
        finally: real.ParamsGenerator._check_buffer_sharing = saved
        rep.canary('e2e checker: _check_buffer_sharing disabled (returns at once) -> the byte-level check must fail', all(r[0] == 'fail' for r in rs), str([r[1][:1] for r in rs]))
    # quantize_tensor made state dependent: the two-applications obligation and the AST obligation must fail
    src = core.read_source(QTEN); a = '    tensor.type = quant_params_to_tflite_type(\n        transformation_input.quant_params.num_bits\n    )'
    if a not in src: rep.canary('quantize_tensor: dtype depends on the previous dtype', False, 'mutation site not found (stale canary)')
    else:
        ms = src.replace(a, a + '\n    if transformation_input.tensor_id == 1 and tensor.type == 9:\n      tensor.type = 3')
        mm = N.load({QTEN: ms}); r = N.twice_case(mm, dict(bits=8, shape=[3, 2], per_channel=False, nonlinear=False))
        ao = [o for o in ast_obligations(None, {QTEN: ms}) if 'function-of-the-parameters' in o.id]
        rep.canary('quantize_tensor: the dtype written for the second sharer depends on its previous dtype', r is not None and ao and ao[0].status != core.PROVED, f'twice: {r}; ast: {ao[0].status if ao else None}')
    # the lemma's native oracle must notice the dropped parameter test
    src = core.read_source(PG); a = '    if params1.parameters != params2.parameters:\n      return False'
    if a in src:
        mm = N.load({PG: src.replace(a, '    pass')}); r = N.compat_pair_case(mm, dict(a=[[3], 1], b=[[3], 2]))
        rep.canary('native lemma oracle: `parameters !=` test dropped', r is not None, str(r))
    else: rep.canary('native lemma oracle: `parameters !=` test dropped', False, 'mutation site not found (stale canary)')

def replay(payload):
    inp = payload.get('inputs') or {}; fam = inp.get('family'); print('replaying', payload.get('obligation'), inp)
    if fam == 'e2e':
        r = N.e2e_case({k: v for k, v in inp.items() if k != 'family'}); print(r); return 1 if r[0] == 'fail' else 0
    m = N.load()
    if fam == 'twice': r = N.twice_case(m, inp)
    elif fam == 'compat-pair': r = N.compat_pair_case(m, inp)
    elif fam == 'compat-tensors': r = N.compat_tensors_case(m, inp)
    elif fam == 'sharing': r = N.sharing_case(m, inp)
    elif fam == 'instr': r = N.instr_case(m, inp)
    elif fam == 'b2t-oracle': r = N.b2t_oracle_case(m, inp)
    elif fam == 'unlisted-tensor':
        r = N.b2t_model_case(m, inp)
    else:
        r = b2t_unlisted_native(); print(r); return 1 if r.get('confirmed') else 0
    print(r); return 1 if r else 0
