"""C05 — stored quantized constants decode to within one step of the float originals.

Functions under contract
  uniform_quantize_tensor.symmetric_quantize_bias_tensor (+ _round_and_clip / assign_quantized_type / uniform_quantize reached through it;
      their own contracts -- clip(rint(.)) in the narrow range, exact cast, rank fix-up shapes -- are proved in C17 and cited)
  min_max_quantize_utils._get_tensor_quant_params (the stored data IS uniform_quantize(content, returned parameters))
  quantize_tensor._pack_data, quantize_tensor.quantize_tensor
  float_casting.materialize_fc_conv, materialize_conv2d_transpose, materialize_embedding_lookup

Structure
  (a) composition lemma over the REFERENCE functions only (no code): mn <= x <= mx  =>  |dequant(quant(x; params_ref(mn, mx))) - x| <= s/2,
      symmetric and asymmetric, for an arbitrary integer range qmax = Q >= 7, qmin = -Q-1 (every bit width at once), as a closed lemma
      chain: every hypothesis of a step is a precondition, a definitional fact of DIV / RINT, or the conclusion of an earlier step.
  (b) quantized bias == clip(rint(bias/scale)) / == rint(bias/scale) when not saturated; the float -> int cast is exact (z3 NRA on the
      terms produced by executing the real function on symbolic inputs).
  (c) _pack_data: the REAL function is executed on a symbolic byte array (vlib/symnp_ext.BVArray: z3 Array Int -> BitVec 8, length
      2m / 2m+1 for a symbolic m); nibble layout goals for an ARBITRARY index k are discharged by z3 (bit-vectors + linear integers).
  (d) quantize_tensor on real flatbuffer objects over the finite table bits x shape (odd / even element count) x per-tensor / per-channel x
      {constant: own buffer with stored data + quantized_data, activation: own empty buffer + no quantized_data, buffer 0 with either}:
      what is written, where, and nothing else.
      CONTRACT CLAUSE  requires(quantize_tensor):  buffers[tensor.buffer].data is not None (tensor.buffer != 0)  <=>  quant_params.quantized_data
      is not None.  Without it the function retypes a constant and leaves its float32 bytes; it is a precondition the CALLERS establish:
  (d') call sites: every registered materialize function emits parameters satisfying the clause for every tensor (family `materialize`:
      constants carry their own quantized data of their own shape, activations carry none); the instruction generator, the performer's
      dispatch, insert_dequant and insert_quant hand `parameters` on unchanged (family `callsites`: dataflow obligations on the real AST);
      insert_quant applies quantize_tensor to a NEW tensor on buffer 0.
  (e) float16 casting: the stored array is content.astype(float16) and nothing else (opaque content: parametric in the data)."""
import fractions, importlib, itertools, struct, time
import numpy as np, z3
from vlib import core, symnp
from vlib.symnp import SymArray
from contracts import c04_common as cc, c04_minigraph as mg
from contracts.c04_common import G, F32

LEVEL = 'proof'
DI_, QI_ = 'transformations/dequant_insert.py', 'transformations/quant_insert.py'
FNS = {
    'uniform_quantize_tensor.symmetric_quantize_bias_tensor': (cc.UQ, 'symmetric_quantize_bias_tensor'),
    'uniform_quantize_tensor._round_and_clip': (cc.UQ, '_round_and_clip'),
    'uniform_quantize_tensor.assign_quantized_type': (cc.UQ, 'assign_quantized_type'),
    'uniform_quantize_tensor.fix_quantization_params_rank': (cc.UQ, 'fix_quantization_params_rank'),
    'uniform_quantize_tensor.uniform_quantize': (cc.UQ, 'uniform_quantize'),
    'min_max_quantize_utils._get_tensor_quant_params': (cc.UTILS, '_get_tensor_quant_params'),
    'quantize_tensor._pack_data': (cc.QT, '_pack_data'),
    'quantize_tensor.quantize_tensor': (cc.QT, 'quantize_tensor'),
    'float_casting.materialize_fc_conv': (cc.FC, 'materialize_fc_conv'),
    'float_casting.materialize_conv2d_transpose': (cc.FC, 'materialize_conv2d_transpose'),
    'float_casting.materialize_embedding_lookup': (cc.FC, 'materialize_embedding_lookup'),
    'min_max_quantize_utils.materialize_standard_op': (cc.UTILS, 'materialize_standard_op'),
    'dequant_insert.insert_dequant': (DI_, 'insert_dequant'), 'quant_insert.insert_quant': (QI_, 'insert_quant'), 'transformation_utils.add_new_activation_tensor': ('transformations/transformation_utils.py', 'add_new_activation_tensor'),
    'transformation_performer.TransformationPerformer._apply_single_transformation': ('transformation_performer.py', 'TransformationPerformer._apply_single_transformation'),
    'transformation_performer.TransformationPerformer._update_instructions': ('transformation_performer.py', 'TransformationPerformer._update_instructions'),
    'transformation_performer.TransformationPerformer.__init__': ('transformation_performer.py', 'TransformationPerformer.__init__'),
    'transformation_instruction_generator.TransformationInstructionsGenerator._quant_params_to_transformation_insts': ('transformation_instruction_generator.py', 'TransformationInstructionsGenerator._quant_params_to_transformation_insts'),
    'min_max_quantize_utils._materialize_standard_op_with_same_as_output_scale': (cc.UTILS, '_materialize_standard_op_with_same_as_output_scale'),
    'min_max_quantize_utils._materialize_standard_op_with_same_as_input_scale': (cc.UTILS, '_materialize_standard_op_with_same_as_input_scale'),
    'min_max_quantize_utils._get_tensor_transformation_params_wrapper': (cc.UTILS, '_get_tensor_transformation_params_wrapper'),
}
for _f in ('materialize_reshape', 'materialize_transpose', 'materialize_split', 'materialize_strided_slice', 'materialize_average_pool_2d', 'materialize_concatenation', 'materialize_fc_conv', 'materialize_conv2d_transpose',
           'materialize_add', 'materialize_sub', 'materialize_mul', 'materialize_batch_matmul', 'materialize_embedding_lookup', 'materialize_softmax_and_logistic', 'materialize_tanh', 'materialize_gelu', 'materialize_mean', 'materialize_rsqrt'):
    FNS['naive_min_max_quantize.' + _f] = (cc.NMM, _f)
R = z3.RealVal; DIV, RINT = symnp.DIV, symnp.RINT; HALF = R('1/2')
def ab(t): return z3.If(t >= 0, t, -t)
def within(e, b): return z3.And(e <= b, -e <= b)

# ------------------------------------------------------------------------------------------------ (a) composition lemma chain (spec level)
def lemma_chain():
    """returns [(id, hyps, goal, clause)]; `have` maps step names to proved conclusions so that the chain is closed by construction"""
    out = []; mn, mx, x = z3.Reals('mn mx x'); Q = z3.Int('Q'); Qr = z3.ToReal(Q); eps = R(str(cc.MIN_RANGE))
    pre = [mn <= x, x <= mx]; rng = [Q >= 7]
    def step(name, hyps, goal, clause, have):
        out.append((name, hyps, goal, clause)); have[name.split('.')[1].split('-')[0]] = goal
    # ---------------- symmetric: s = max(|mn|,|mx|,eps)/qmax, zp = 0, codes in [-qmax, qmax]
    h = {}
    B = cc.zmax(cc.zmax(ab(mn), ab(mx)), eps); s = DIV(B, Qr); Fs = symnp.div_fact(B, Qr)
    u = DIV(x, s); Fu = symnp.div_fact(x, s); y = u; r = RINT(y); Fr = symnp.rint_facts(y)[0]; rr = z3.ToReal(r)
    q = z3.If(rr < -Qr, -Q, z3.If(rr > Qr, Q, r)); qr = z3.ToReal(q)
    step('symmetric.S1-|x|<=bound-and-bound-positive', pre, z3.And(ab(x) <= B, B > 0), 'mn <= x <= mx => |x| <= max(|mn|,|mx|,1e-4) > 0', h)
    step('symmetric.S2-scale-positive-and-scale*qmax==bound', rng + [h['S1'], Fs], z3.And(s > 0, s * Qr == B), 's = bound/qmax > 0', h)
    step('symmetric.S3-x-inside-the-representable-range', rng + [h['S1'], h['S2']], z3.And(-(Qr * s) <= x, x <= Qr * s), '-qmax*s <= x <= qmax*s', h)
    step('symmetric.S4-(x/s)*s==x', [h['S2'], Fu], u * s == x, 'definition of the quotient (s != 0)', h)
    step('symmetric.S5-x/s-inside-[-qmax,qmax]', rng + [h['S2'], h['S3'], h['S4']], z3.And(-Qr <= u, u <= Qr), '-qmax <= x/s <= qmax', h)
    step('symmetric.S6-clip(rint(x/s))-within-half-a-code-of-x/s', rng + [h['S5'], Fr], within(qr - y, HALF), '|q - x/s| <= 1/2 with q = clip(rint(x/s), -qmax, qmax)', h)
    step('symmetric.S7-decoding-error-at-most-half-a-step', [h['S2'], h['S4'], h['S6']], within(qr * s - x, s / 2), 'CONCLUSION (symmetric): |q*s - x| <= s/2 for every x in [mn, mx], every qmax >= 7', h)
    step('symmetric.S8-code-inside-the-narrow-range', rng, z3.And(q >= -Q, q <= Q), '-qmax <= q <= qmax (the narrow range: the cast to the stored integer type cannot wrap)', h)
    # ---------------- asymmetric: s = max(max(mx,0)-min(mn,0),eps)/(qmax-qmin), zp = rint(qmin - min(mn,0)/s), codes in [qmin, qmax]
    h = {}; qmin = -Qr - 1; qmax = Qr; W = 2 * Qr + 1
    bmax = z3.If(mx > 0, mx, 0); bmin = z3.If(mn < 0, mn, 0); Rg = cc.zmax(bmax - bmin, eps)
    s = DIV(Rg, W); Fs = symnp.div_fact(Rg, W); t = DIV(bmin, s); Ft = symnp.div_fact(bmin, s); zpre = qmin - t; zp = RINT(zpre); zr = z3.ToReal(zp); Fz = symnp.rint_facts(zpre)[0]
    u = DIV(x, s); Fu = symnp.div_fact(x, s); y = u + zr; r = RINT(y); Fr = symnp.rint_facts(y)[0]; rr = z3.ToReal(r)
    q = z3.If(rr < qmin, -Q - 1, z3.If(rr > qmax, Q, r)); qr = z3.ToReal(q)
    step('asymmetric.A1-x-inside-[min(mn,0),max(mx,0)]-range-positive', pre, z3.And(bmin <= x, x <= bmax, bmin <= 0, bmax >= 0, Rg >= bmax - bmin, Rg > 0), 'zero is included in the range; range >= 1e-4 > 0', h)
    step('asymmetric.A2-scale-positive-and-scale*(qmax-qmin)==range', rng + [h['A1'], Fs], z3.And(s > 0, s * W == Rg), 's = range/(qmax-qmin) > 0', h)
    step('asymmetric.A3-quotients', [h['A2'], Ft, Fu], z3.And(t * s == bmin, u * s == x), '(bmin/s)*s == bmin and (x/s)*s == x', h)
    step('asymmetric.A4-bmin/s<=x/s', [h['A1'], h['A2'], h['A3']], t <= u, 'division by s > 0 is monotone', h)
    step('asymmetric.A5-x/s<=bmin/s+(qmax-qmin)', rng + [h['A1'], h['A2'], h['A3']], u <= t + W, 'x <= bmax <= bmin + range', h)
    step('asymmetric.A6-zero-point-inside-[qmin,qmax]', rng + [h['A1'], h['A2'], h['A3'], Fz], z3.And(zr >= qmin, zr <= qmax), 'qmin <= zp <= qmax', h)
    step('asymmetric.A7-pre-rounding-value-within-half-a-code-of-[qmin,qmax]', rng + [h['A4'], h['A5'], Fz], z3.And(qmin - HALF <= y, y <= qmax + HALF), 'qmin - 1/2 <= x/s + zp <= qmax + 1/2', h)
    step('asymmetric.A8-clip(rint(y))-within-half-a-code-of-y', rng + [h['A7'], Fr], within(qr - y, HALF), '|q - (x/s + zp)| <= 1/2 with q = clip(rint(x/s + zp), qmin, qmax)', h)
    step('asymmetric.A9-decoding-error-at-most-half-a-step', [h['A2'], h['A3'], h['A8']], within((qr - zr) * s - x, s / 2), '|(q - zp)*s - x| <= s/2 over the reals', h)
    step('asymmetric.A10-decoding-error-at-most-one-step', [h['A2'], h['A9']], within((qr - zr) * s - x, s), 'CONCLUSION (asymmetric, as stated in the property): |(q - zp)*s - x| <= s', h)
    step('asymmetric.A11-code-inside-the-range', rng, z3.And(q >= -Q - 1, q <= Q), 'qmin <= q <= qmax', h)
    return out

def fam_lemmas(M=None):
    gl = []
    for name, hyps, goal, clause in lemma_chain():
        g = G(f'composition.{name}', None, hyps, goal, clause=clause, inputs=dict(family='lemmas')); gl.append(g)
    # decoding an int4 nibble (TFLite: two's complement, sign-extended) returns the stored 8-bit code exactly when the code is a 4-bit value
    v = z3.BitVec('v', 8)
    gl.append(G('composition.int4.sign-extended-low-nibble-recovers-the-code', None, [v >= -8, v <= 7], z3.SignExt(4, z3.Extract(3, 0, v)) == v, bv=True, inputs=dict(family='lemmas'),
                clause='-8 <= code <= 7 (8-bit two\'s complement) => sign_extend(code & 0xF) == code: the packed nibble decodes to the quantized value'))
    return gl

# ------------------------------------------------------------------------------------------------ (c) _pack_data on a symbolic byte array
def fam_pack(M):
    from vlib.symnp_ext import BVArray, Len, M_SYM
    goals = []; Fp = 'quantize_tensor._pack_data'; d = z3.Array('d', z3.IntSort(), z3.BitVecSort(8)); k = z3.Int('k'); H0 = [M_SYM >= 0]
    for bw, parity in itertools.product((1, 2, 3, 4), (0, 1)):
        n = 2 * M_SYM + parity; src = BVArray.source('d', Len(2, parity), np.uint8)
        tag = f'bitwidth{bw}.n-{"odd" if parity else "even"}'; inputs = dict(family='pack', bitwidth=bw, parity=parity)
        try: out = M.qt._pack_data(bw, src)
        except symnp.Undecided: raise
        except Exception as ex: out = ex                      # e.g. the real code's own broadcasting error for this parity
        rp = (lambda model, bw=bw, parity=parity: native_pack(M, bw, parity, model))
        ok = isinstance(out, BVArray) and out.dtype == np.dtype('uint8')
        g = G(f'{tag}.result-is-a-uint8-vector', Fp, ok=bool(ok), backend='cpython-exec', inputs=inputs, observed=repr(out), clause='for every uint8 vector of this parity the call returns a 1-D uint8 vector (no exception)')
        if not ok:                                            # a symbolic run is not a native input: look for one
            nr = native_pack(M, bw, parity, {}); g.ok = None; g.hyps = []; g.goal = z3.BoolVal(False); g.replay = (lambda model, nr=nr: nr)
        goals.append(g)
        if not ok: continue
        L = out.length.expr(); e = out.elem
        goals.append(G(f'{tag}.length-is-ceil(n/2)', Fp, H0, L == (n + 1) / 2, bv=True, replay=rp, inputs=inputs, clause='|result| == (n + 1) div 2'))
        goals.append(G(f'{tag}.low-nibble-is-element-2k', Fp, H0 + [0 <= k, k < L], (e(k) & 0x0F) == (z3.Select(d, 2 * k) & 0x0F), bv=True, replay=rp, inputs=inputs, clause='forall k < |result|: result[k] & 0x0F == d[2k] & 0x0F'))
        goals.append(G(f'{tag}.high-nibble-is-element-2k+1', Fp, H0 + [0 <= k, 2 * k + 1 < n], z3.LShR(e(k), 4) == (z3.Select(d, 2 * k + 1) & 0x0F), bv=True, replay=rp, inputs=inputs, clause='forall k with 2k+1 < n: result[k] >> 4 == d[2k+1] & 0x0F'))
        if parity: goals.append(G(f'{tag}.odd-tail-high-nibble-is-0', Fp, H0, z3.LShR(e(L - 1), 4) == 0, bv=True, replay=rp, inputs=inputs, clause='n odd => result[|result|-1] >> 4 == 0'))
    bad = []
    for bw in range(5, 65):
        o = object()
        if M.qt._pack_data(bw, o) is not o: bad.append(bw)
    goals.append(G('bitwidth5..64.returns-the-input-object', Fp, ok=not bad, inputs=dict(family='pack', bitwidths='5..64'), observed=bad, clause='bitwidth > 4 => result is flattened_data (no inspection of the data: an opaque object is returned unchanged), for every bitwidth 5..64'))
    return goals

def ref_pack(codes):
    """independent TFLite INT4 packing (element 2k in bits 0..3 of byte k, element 2k+1 in bits 4..7, zero padding)"""
    out = bytearray((len(codes) + 1) // 2)
    for i, c in enumerate(codes): out[i // 2] |= (int(c) & 0xF) << (4 * (i % 2))
    return bytes(out)
def ref_unpack(raw, n):
    vals = []
    for i in range(n):
        nib = (raw[i // 2] >> (4 * (i % 2))) & 0xF; vals.append(nib - 16 if nib >= 8 else nib)
    return vals

def native_pack(M, bw, parity, model):
    """the real _pack_data on concrete uint8 vectors of the given parity compared with the independent reference packing"""
    for m in (0, 1, 2, 5):
        n = 2 * m + parity
        for seed in range(3):
            d = ((np.arange(n) * (37 + 20 * seed) + 11 + seed) % 256).astype(np.uint8)
            try: got = bytes(np.asarray(M.qt._pack_data(bw, d)).astype(np.uint8))
            except Exception as e: return dict(confirmed=True, inputs=dict(family='pack', bitwidth=bw, data=[int(v) for v in d]), observed=repr(e))
            if got != ref_pack(d): return dict(confirmed=True, inputs=dict(family='pack', bitwidth=bw, data=[int(v) for v in d]), observed=dict(packed=list(got), expected=list(ref_pack(d))))
    return dict(confirmed=False, inputs=dict(model=model), observed='the counter-model did not reproduce natively')

# ------------------------------------------------------------------------------------------------ (d) quantize_tensor
TTYPE = {4: 17, 8: 9, 16: 7, 32: 2, 64: 4}           # TFLite schema TensorType: INT4 17, INT8 9, INT16 7, INT32 2, INT64 4 ; FLOAT16 1, FLOAT32 0
QT_SHAPES = [((3, 1), 'n3-odd'), ((3, 2), 'n6-even'), ((5,), 'n5-odd-1d'), ((1,), 'n1')]

def qt_case(M, bits, shape, bufkind, has_data, per_channel, nonlinear=False):
    """one real tensor (float32, with its original constant) + neighbours, one TransformationInput; returns everything the checks need"""
    S = M.schema; qt = M.qtyping; tu = importlib.import_module('ai_edge_quantizer.transformations.transformation_utils')
    n = int(np.prod(shape)); lo, hi = (-8, 7) if bits <= 4 else (-100, 100)
    orig = (np.arange(n, dtype=np.float32) * 0.37 - 1.0).reshape(shape)
    bufs = [S.BufferT()]; bufs[0].data = None
    sg = S.SubGraphT(); sg.tensors = []; sg.operators = []; sg.inputs = np.array([], np.int32); sg.outputs = np.array([], np.int32)
    def add_tensor(name, data, kind='own-buffer'):
        t = S.TensorT(); t.name = name; t.shape = np.array(data.shape, np.int32); t.type = 0; t.quantization = None
        if kind == 'buffer0': t.buffer = 0
        else:
            b = S.BufferT(); b.data = np.frombuffer(data.tobytes(), dtype=np.uint8) if kind == 'own-buffer' else None; bufs.append(b); t.buffer = len(bufs) - 1
        sg.tensors.append(t); return t
    other = add_tensor(b'other', np.array([1.0, 2.0, 3.0], np.float32)); T = add_tensor(b'T', orig, bufkind); other2 = add_tensor(b'other2', np.array([4.0], np.float32))
    if nonlinear:
        qd = orig.astype(np.float16) if bits == 16 else orig.astype(np.float32)
        params = qt.NonLinearQuantParams(num_bits=bits, quantized_data=qd if has_data else None)
    else:
        codes = (((np.arange(n) * 5 + 3) % (hi - lo + 1)) + lo).astype(cc.int_dtype(bits)).reshape(shape)
        nch = shape[0] if per_channel else 1
        scale = (np.arange(nch, dtype=np.float32) + 1) * np.float32(0.013); zp = (np.arange(nch) - 1).astype(cc.int_dtype(bits))
        pshape = tuple(shape[0] if (per_channel and d == 0) else 1 for d in range(len(shape)))
        params = qt.UniformQuantParams(num_bits=bits, quantized_dimension=0 if per_channel else None, scale=scale.reshape(pshape), zero_point=zp.reshape(pshape), symmetric=False, quantized_data=codes if has_data else None)
    ti = tu.TransformationInput(tensor_id=1, op_codes=[], buffers=bufs, subgraph=sg, producer=-1, consumers=[], quant_params=params)
    return dict(ti=ti, T=T, sg=sg, bufs=bufs, params=params, orig=orig, others=(other, other2))

def snapshot(c):
    return dict(buf=[None if b.data is None else bytes(np.asarray(b.data).tobytes()) for b in c['bufs']], bufobj=[b.data for b in c['bufs']], nb=len(c['bufs']),
                tens=[(t.name, tuple(t.shape), t.type, t.buffer, t.quantization) for t in c['sg'].tensors], nt=len(c['sg'].tensors), nops=len(c['sg'].operators))

def fam_quantize_tensor(M):
    goals = []; Fq = 'quantize_tensor.quantize_tensor'; qt = M.qtyping; consistency = {}
    # rows admitted by the `requires` of the contract (REQUIRES_QT): a constant (own buffer WITH stored data) comes with quantized_data; a tensor
    # without stored data (its own empty buffer) comes without; buffer 0 (the shared empty buffer) with either
    ROWS = (('own-buffer', True), ('empty-buffer', False), ('buffer0', True), ('buffer0', False))
    table = [(bits, shp, lab, bk, has, pc, False) for bits in (4, 8, 16, 32, 64) for shp, lab in QT_SHAPES for bk, has in ROWS for pc in (False, True) if not (pc and len(shp) == 1)]
    table += [(16, shp, lab, bk, has, False, True) for shp, lab in QT_SHAPES for bk, has in ROWS] + [(32, (3, 2), 'n6-even', 'own-buffer', True, False, True)]
    for bits, shp, lab, bk, has, pc, nonlin in table:
        own = bk == 'own-buffer'
        tag = f'{"float" if nonlin else "int"}{bits}.{lab}.{bk}.{"data" if has else "no-data"}.{"per-channel" if pc else "per-tensor"}'
        inputs = dict(family='quantize_tensor', bits=bits, shape=shp, buffer=bk, has_data=has, per_channel=pc, nonlinear=nonlin)
        c = qt_case(M, bits, shp, bk, has, pc, nonlin); before = snapshot(c); p = c['params']; T = c['T']; n = int(np.prod(shp))
        stored0 = c['bufs'][T.buffer].data is not None if T.buffer else False
        if (stored0 and p.quantized_data is None) or (T.buffer and not stored0 and p.quantized_data is not None): raise AssertionError('row outside the precondition of the quantize_tensor contract')
        calls = []; real = M.qt._pack_data
        def spy(bw, data):
            r = real(bw, data); calls.append((bw, data, r)); return r
        M.qt._pack_data = spy
        ret = None
        with cc.guarded(goals, tag, Fq, inputs):
            try: ret = M.qt.quantize_tensor(c['ti'])
            finally: M.qt._pack_data = real
        if ret is None: continue
        after = snapshot(c)
        # ---- buffer
        write = own and has; b = T.buffer
        if write:
            raw = np.frombuffer(p.quantized_data.tobytes(), dtype=np.uint8)
            okc = len(calls) == 1 and calls[0][0] == bits and isinstance(calls[0][1], np.ndarray) and calls[0][1].dtype == np.uint8 and calls[0][1].ndim == 1 and np.array_equal(calls[0][1], raw) and c['bufs'][b].data is calls[0][2]
            stored = bytes(np.asarray(c['bufs'][b].data).tobytes())
            want_len = (n + 1) // 2 if bits <= 4 and not nonlin else n * p.quantized_data.dtype.itemsize
            okb = len(stored) == want_len and (stored == ref_pack(p.quantized_data.reshape(-1)) and ref_unpack(stored, n) == [int(v) for v in p.quantized_data.reshape(-1)] if (bits <= 4 and not nonlin) else stored == p.quantized_data.tobytes())
            oko = all(after['buf'][i] == before['buf'][i] and after['bufobj'][i] is before['bufobj'][i] for i in range(before['nb']) if i != b)
            goals.append(G(f'{tag}.buffer-is-_pack_data(num_bits,bytes(quantized_data))', Fq, ok=bool(okc and okb and oko and after['nb'] == before['nb']), inputs=inputs, observed=dict(calls=len(calls), stored_len=len(stored), want_len=want_len),
                           clause='buffers[tensor.buffer].data is the object _pack_data(num_bits, uint8 view of quantized_data.tobytes()) returned; byte length == ceil(n/2) (<= 4 bit) / n*itemsize; decoding the nibbles gives the codes back; every other buffer untouched'))
        else:
            ok = not calls and after['buf'] == before['buf'] and all(a is b0 for a, b0 in zip(after['bufobj'], before['bufobj'])) and after['nb'] == before['nb']
            goals.append(G(f'{tag}.no-buffer-is-written', Fq, ok=bool(ok), inputs=inputs, observed=dict(calls=len(calls)), clause='tensor.buffer == 0, or a tensor without stored data and without quantized_data => no buffer changes (buffer 0 is the shared empty buffer)'))
        # ---- annotation
        qz = T.quantization
        if nonlin:
            ok = T.type == {16: 1, 32: 0}[bits] and qz is None
            goals.append(G(f'{tag}.type-is-FLOAT{bits}-and-no-quantization-record', Fq, ok=bool(ok), inputs=inputs, observed=dict(type=T.type), clause='non-linear parameters: tensor.type == FLOAT16 (16) / FLOAT32 (32); tensor.quantization untouched'))
        else:
            ws = np.asarray(p.scale).reshape(-1).astype(np.float32); wz = np.asarray(p.zero_point).reshape(-1).astype(np.int64)
            ok = (T.type == TTYPE[bits] and qz is not None and isinstance(qz.scale, list) and isinstance(qz.zeroPoint, list) and len(qz.scale) == len(qz.zeroPoint) == ws.size
                  and all(isinstance(v, np.float32) and v == w for v, w in zip(qz.scale, ws)) and all(isinstance(v, np.int64) and v == w for v, w in zip(qz.zeroPoint, wz))
                  and qz.quantizedDimension == (p.quantized_dimension if p.quantized_dimension is not None else 0) and (not pc or len(qz.scale) == shp[0]))
            goals.append(G(f'{tag}.type-scale-zeroPoint-quantizedDimension-written-from-the-parameters', Fq, ok=bool(ok), inputs=inputs,
                           observed=dict(type=T.type, scale=[float(v) for v in (qz.scale if qz is not None and qz.scale is not None else [])], zeroPoint=[int(v) for v in (qz.zeroPoint if qz is not None and qz.zeroPoint is not None else [])], qdim=getattr(qz, 'quantizedDimension', None)),
                           clause=f'tensor.type == {TTYPE[bits]} (INT{bits}); quantization.scale == flatten(scale) as float32, zeroPoint == flatten(zero_point) as int64, equal lengths (one, or the size of the quantized dimension); quantizedDimension written iff not None (else the schema default 0)'))
        # ---- the stored bytes must be what the WRITTEN type and the shape imply (aggregated per (kind, bits, data given?) over shapes and granularities)
        if own:
            stored_len = len(after['buf'][T.buffer]); el = {17: None, 9: 1, 7: 2, 2: 4, 4: 8, 1: 2, 0: 4}.get(T.type); want = (n + 1) // 2 if T.type == 17 else (n * el if el else -1)
            key = (('float' if nonlin else 'int') + str(bits), has); rec = consistency.setdefault(key, dict(rows=0, bad=[]))
            rec['rows'] += 1
            if stored_len != want: rec['bad'].append(dict(row=tag, tensor_type=T.type, elements=n, stored_bytes=stored_len, bytes_implied_by_type_and_shape=want))
        # ---- frame and result
        t_after = after['tens']; t_before = before['tens']
        ok = (after['nt'] == before['nt'] and after['nops'] == before['nops'] and t_after[0] == t_before[0] and t_after[2] == t_before[2] and t_after[1][:2] == t_before[1][:2] and t_after[1][3] == t_before[1][3]
              and ret == qt.TransformationInfo(0, 0, 1))
        goals.append(G(f'{tag}.frame-and-result', Fq, ok=bool(ok), inputs=inputs, clause='other tensors, the tensor\'s name / shape / buffer index, operator list unchanged; returns TransformationInfo(0, 0, tensor_id)'))
    for (kind, has), rec in sorted(consistency.items()):
        goals.append(G(f'{kind}.constant-with-stored-data.stored-bytes-have-the-length-implied-by-the-written-type-and-shape', Fq, ok=not rec['bad'],
                       inputs=dict(family='quantize_tensor', kind=kind, has_data=has, rows=rec['rows'], first_failing_row=(rec['bad'][0] if rec['bad'] else None)), observed=rec['bad'][:3],
                       clause='requires(stored data => quantized_data is not None): after quantize_tensor, len(buffer) == ceil(n/2) (INT4) / n * itemsize(tensor.type) for every constant row of the table (every shape / granularity)'))
    return goals

# ------------------------------------------------------------------------------------------------ (e) float16 casting
def fam_fp16(M):
    from vlib.symnp_ext import OpaqueArray
    goals = []; qt = M.qtyping
    made = {}
    def opaque_data(tensor, buffers):
        if buffers[tensor.buffer].data is None: return None
        made[id(tensor)] = OpaqueArray(tensor.name.decode()); return made[id(tensor)]
    Mx = cc.load_mods(M.mut, want=('fbu', 'fc'), proxies={cc.FBU: cc.proxy_of(M.fbu, get_tensor_data=opaque_data)})
    reg = cc.registry(Mx)['float_casting']
    missing = sorted({'FULLY_CONNECTED', 'CONV_2D', 'DEPTHWISE_CONV_2D', 'CONV_2D_TRANSPOSE', 'EMBEDDING_LOOKUP'} ^ set(reg))
    goals.append(G('registration.float_casting-ops', 'float_casting.materialize_fc_conv', ok=not missing, inputs=dict(family='fp16'), observed=missing, clause='float_casting is registered exactly for fc / conv / depthwise / transpose-conv / embedding lookup'))
    for opn, expl, has_bias in itertools.product(sorted(reg), (True, False), (True, False)):
        if opn == 'EMBEDDING_LOOKUP' and has_bias: continue
        Fm = 'float_casting.' + reg[opn].__name__
        m = mg.build(opn, bias=has_bias); cfg = qt.OpQuantizationConfig(weight_tensor_config=qt.TensorQuantizationConfig(16, dtype=qt.TensorDataType.FLOAT), compute_precision=qt.ComputePrecision.FLOAT, explicit_dequantize=expl)
        tag = f'{opn}.explicit_dequantize-{expl}.{"bias" if has_bias else "no-bias"}'; inputs = dict(family='fp16', op=opn, explicit_dequantize=expl, bias=has_bias)
        oi, gi = mg.infos(m, qt, cfg); res = None
        try:
            with cc.guarded(goals, tag, Fm, inputs): res = reg[opn](oi, gi, {})
        except symnp.Undecided as ex:
            # the weight content reaches numpy through something other than one .astype(float16): parametricity is lost -> the clause is decided by a native
            # search over weight values at the float16 boundaries (refuted with the failing values, otherwise undecided)
            bad = native_fp16_search(M, opn, has_bias, cfg)
            if not bad: raise                      # no failing weight found: the front end cannot follow the code (reported as such by the caller, never as 'held')
            goals.append(G(f'{tag}.stored-weight-is-content.astype(float16)', Fm, ok=False, backend='cpython-exec', inputs=dict(inputs, weights=bad.get('weights')), observed=bad,
                           clause="stored float16 constant == round-to-nearest-even float16 of the original weight (overflow to inf, subnormals), for every weight content"))
            continue
        if res is None: continue
        rn = {r.tensor_name: r for r in res}; wname = m.names[m.weight]
        e = rn[wname].consumers[0]; p = e.parameters; X = made.get(id(m.tensors[m.weight]))
        ok = (isinstance(p, qt.NonLinearQuantParams) and p.num_bits == 16 and isinstance(p.quantized_data, OpaqueArray) and p.quantized_data._name == wname and p.quantized_data._casts == (np.dtype('float16'),)
              and p.data_type == qt.TensorDataType.FLOAT and e.transformations == [qt.QuantTransformation.ADD_DEQUANTIZE] and e.subgraph_op_id == 0 and len(rn[wname].consumers) == 1)
        goals.append(G(f'{tag}.stored-weight-is-content.astype(float16)', Fm, ok=bool(ok), backend='cpython-exec', inputs=inputs, observed=repr(getattr(p, 'quantized_data', None)),
                       clause='for every weight content: parameters == NonLinearQuantParams(num_bits=16, quantized_data=<the weight tensor\'s content>.astype(np.float16)) -- exactly one cast, nothing else touches the data; transformation [ADD_DEQUANTIZE]'))
        oth = [r for k, r in rn.items() if k != wname]
        ok = len(res) == len(rn) and all((r.producer or r.consumers[0]).parameters is None and (r.producer or r.consumers[0]).transformations == [qt.QuantTransformation.NO_QUANTIZE] for r in oth) \
             and set(rn) == {m.names[i] for i in ([m.op.inputs[0]] if opn != 'CONV_2D_TRANSPOSE' else [m.op.inputs[2]]) + [m.weight] + m.outs + ([m.bias] if has_bias else [])}
        goals.append(G(f'{tag}.every-other-tensor-stays-float', Fm, ok=bool(ok), backend='cpython-exec', inputs=inputs, clause='input / output / bias entries: NO_QUANTIZE, no parameters'))
    return goals

def native_fp16_search(M, opn, has_bias, cfg):
    """the REAL registered float-casting materialize function on a minimal op whose weight holds float16 boundary values; stored halves compared bit for bit with f16_ref_bits"""
    qt = M.qtyping; reg = cc.registry(M)['float_casting']
    m = mg.build(opn, bias=has_bias); T = m.tensors[m.weight]; n = int(np.prod(T.shape))
    specials = np.array([65504.0, 65519.0, 65520.0, 70000.0, -65520.0, -1e6, 2 ** -24, 2 ** -25, 1.5 * 2 ** -25, 6.1e-5, 1.0 + 2 ** -11, 1.0 + 3 * 2 ** -11, 0.0, -0.0, 0.1, -0.3], np.float32)
    data = np.resize(specials, n).astype(np.float32).reshape(T.shape); m.buffers[T.buffer].data = np.frombuffer(data.tobytes(), dtype=np.uint8)
    oi, gi = mg.infos(m, qt, cfg)
    try:
        with np.errstate(all='ignore'): res = reg[opn](oi, gi, {})
        p = {r.tensor_name: r for r in res}[m.names[m.weight]].consumers[0].parameters; got = np.asarray(p.quantized_data)
        if got.dtype != np.float16: return dict(weights=[float(x) for x in data.reshape(-1)[:16]], observed=f'stored dtype {got.dtype}')
        bits = got.reshape(-1).view(np.uint16); bad = [(float(a), int(b), f16_ref_bits(a)) for a, b in zip(data.reshape(-1), bits) if int(b) != f16_ref_bits(a)]
        return dict(weights=[x[0] for x in bad[:6]], observed=[f'{x[0]!r}: stored 0x{x[1]:04x}, round-to-nearest-even float16 is 0x{x[2]:04x}' for x in bad[:6]]) if bad else None
    except Exception as e: return dict(weights=[float(x) for x in data.reshape(-1)[:16]], observed=f'raised {type(e).__name__}: {e}')

# ------------------------------------------------------------------------------------------------ every materialize path: constants get THEIR data, activations get none
E2E = []          # (cases, failures) of the decode-within-a-step check done on the side (bounded stand-in)
def expected_len(ttype, n): return (n + 1) // 2 if ttype == 17 else n * {9: 1, 7: 2, 2: 4, 4: 8, 1: 2, 0: 4}[ttype]

def fam_materialize(M):
    goals = []; qt = M.qtyping; T = qt.TensorQuantizationConfig; regs = cc.registry(M); tu = importlib.import_module('ai_edge_quantizer.transformations.transformation_utils')
    QT_, DQ_ = qt.QuantTransformation.QUANTIZE_TENSOR, qt.QuantTransformation.ADD_DEQUANTIZE
    W = lambda b=8, g='CHANNELWISE': T(b, True, qt.QuantGranularity(g))
    srqs = {f'srq-a{b}{"sym" if s_ else "asym"}': qt.OpQuantizationConfig(activation_tensor_config=T(b, s_), weight_tensor_config=W(), compute_precision=qt.ComputePrecision.INTEGER) for b, s_ in ((8, False), (8, True), (16, True))}
    wonly = {'drq-w8': qt.OpQuantizationConfig(weight_tensor_config=W(), compute_precision=qt.ComputePrecision.INTEGER), 'drq-w4-tensorwise': qt.OpQuantizationConfig(weight_tensor_config=W(4, 'TENSORWISE'), compute_precision=qt.ComputePrecision.INTEGER),
             'weight-only-w8': qt.OpQuantizationConfig(weight_tensor_config=W(), compute_precision=qt.ComputePrecision.FLOAT, explicit_dequantize=True),
             'weight-only-w4-asym': qt.OpQuantizationConfig(weight_tensor_config=T(4, False, qt.QuantGranularity.CHANNELWISE), compute_precision=qt.ComputePrecision.FLOAT, explicit_dequantize=True)}
    f16 = {'fp16': qt.OpQuantizationConfig(weight_tensor_config=T(16, dtype=qt.TensorDataType.FLOAT), compute_precision=qt.ComputePrecision.FLOAT, explicit_dequantize=True)}
    weight_ops = set(cc.QDIM_REF) | {'BATCH_MATMUL'}; cases = fails = 0
    plan = []
    for opn in regs['min_max_uniform_quantize']:
        if opn in ('INPUT', 'OUTPUT'): continue
        nin = len(mg.build(opn).ins); pats = [()] + [(i,) for i in range(nin)] + ([tuple(range(nin))] if nin > 1 else [])
        if opn in weight_ops: pats = [()]          # the constant operand of these ops is the weight (every constant of such an op is treated as a weight by the library)
        for cname, cfg in srqs.items():
            if opn == 'EMBEDDING_LOOKUP': continue                      # not a static-range op in the policy
            plan += [('min_max_uniform_quantize', opn, cname, cfg, pat) for pat in pats]
        if opn in weight_ops: plan += [('min_max_uniform_quantize', opn, cname, cfg, ()) for cname, cfg in wonly.items()]
    plan += [('float_casting', opn, 'fp16', f16['fp16'], ()) for opn in regs['float_casting']]
    for alg, opn, cname, cfg, pat in plan:
        m = mg.build(opn)
        for k in pat: m.make_const(m.ins[k])
        oi, gi = mg.infos(m, qt, cfg); fn = regs[alg][opn]; Fm = ('naive_min_max_quantize.' if alg.startswith('min') else 'float_casting.') + fn.__name__
        if Fm not in FNS: Fm = 'min_max_quantize_utils.materialize_standard_op'
        tag = f'{opn}.{cname}.' + ('constant-operands-' + '+'.join(m.names[m.ins[k]] for k in pat) if pat else 'weights-only-constants'); inputs = dict(family='materialize', algorithm=alg, op=opn, config=cname, constant_activation_operands=[m.names[m.ins[k]] for k in pat])
        qsv = {}
        if alg.startswith('min'):
            qsv = M.nmm.init_qsvs(oi, gi)                                  # what calibration starts from: true min/max of constants, {} for activations
            for kname in list(qsv):
                if not qsv[kname]:
                    r_ = len(m.tensors[m.names.index(kname)].shape); qsv[kname] = {'min': np.full((1,) * r_, -1.5, np.float32), 'max': np.full((1,) * r_, 2.25, np.float32)}
        res = None
        with cc.guarded(goals, tag, Fm, inputs): res = fn(oi, gi, qsv)
        if res is None: continue
        badA, badB, nconst = [], [], 0
        for r in res:
            tid = m.names.index(r.tensor_name); t = m.tensors[tid]; has = m.has_data(tid); n = int(np.prod(t.shape))
            for e in ([r.producer] if r.producer else []) + list(r.consumers or []):
                p = e.parameters
                if has and (QT_ in e.transformations or DQ_ in e.transformations):
                    nconst += 1; qd = getattr(p, 'quantized_data', None)
                    want_dt = np.dtype('float16') if isinstance(p, qt.NonLinearQuantParams) else (cc.int_dtype(p.num_bits) if p is not None else None)
                    okA = p is not None and isinstance(qd, np.ndarray) and qd.shape == tuple(int(d) for d in t.shape) and qd.dtype == want_dt
                    # consequence on the model: the REAL quantize_tensor applied with these very parameters
                    sg = M.schema.SubGraphT(); sg.tensors = m.tensors; sg.operators = [m.op]; conseq = None
                    if p is not None:
                        try:
                            M.qt.quantize_tensor(tu.TransformationInput(tid, [], m.buffers, sg, -1, [0], p)); stored = len(bytes(np.asarray(m.buffers[t.buffer].data).tobytes()))
                            conseq = dict(tensor_type_after=t.type, stored_bytes=stored, bytes_implied_by_type_and_shape=expected_len(t.type, n)); cases += 1
                            if stored != expected_len(t.type, n): fails += 1
                        except Exception as ex: conseq = repr(ex)
                    if not okA: badA.append(dict(tensor=r.tensor_name, transformations=[x.name for x in e.transformations], quantized_data=None if qd is None else str(getattr(qd, 'shape', qd)), after_quantize_tensor=conseq))
                if not has and p is not None and getattr(p, 'quantized_data', None) is not None:
                    conseq = None
                    if DQ_ in e.transformations:       # consequence on the model: the REAL insert_dequant with these very parameters
                        try:
                            di = importlib.import_module('ai_edge_quantizer.transformations.dequant_insert'); sg = M.schema.SubGraphT(); sg.tensors = m.tensors; sg.operators = [m.op]
                            sg.inputs = np.array([], np.int32); sg.outputs = np.array(m.outs, np.int32)
                            di.insert_dequant(tu.TransformationInput(tid, [], m.buffers, sg, 0, [-1], p)); bd = m.buffers[t.buffer].data
                            conseq = dict(activation_buffer_index=t.buffer, bytes_now_stored_in_the_activation_buffer=None if bd is None else len(bytes(np.asarray(bd).tobytes())), elements_of_the_activation=n)
                        except Exception as ex: conseq = repr(ex)
                    badB.append(dict(tensor=r.tensor_name, tensor_shape=[int(d) for d in t.shape], transformations=[x.name for x in e.transformations], carries_quantized_data_of_shape=list(p.quantized_data.shape), after_insert_dequant=conseq))
        if nconst:
            goals.append(G(f'{tag}.every-rewritten-constant-carries-its-own-quantized-data', Fm, ok=not badA, inputs=inputs, observed=badA,
                           clause='every OpToTensorParams with QUANTIZE_TENSOR / ADD_DEQUANTIZE for a tensor that HAS constant data: parameters.quantized_data is an array of the tensor\'s shape and of the dtype num_bits implies (otherwise quantize_tensor retypes the tensor and leaves the float32 bytes)'))
        goals.append(G(f'{tag}.no-activation-carries-quantized-data', Fm, ok=not badB, inputs=inputs, observed=badB,
                       clause='parameters emitted for a tensor WITHOUT constant data have quantized_data None (otherwise insert_dequant / quantize_tensor store another tensor\'s bytes in the activation\'s buffer)'))
    E2E[:] = [(cases, fails)]
    return goals

# ------------------------------------------------------------------------------------------------ call sites of quantize_tensor hand `parameters` on unchanged
DI, QI, TP, TIG, TU = 'transformations/dequant_insert.py', 'transformations/quant_insert.py', 'transformation_performer.py', 'transformation_instruction_generator.py', 'transformations/transformation_utils.py'
def _dotted(n):
    import ast
    if isinstance(n, ast.Name): return n.id
    if isinstance(n, ast.Attribute):
        b = _dotted(n.value); return None if b is None else b + '.' + n.attr
    return None
def _calls(node, name):
    import ast
    return [c for c in ast.walk(node) if isinstance(c, ast.Call) and _dotted(c.func) == name]
def _stores(node):
    """dotted names of everything assigned / augmented / deleted / bound by for, with, walrus inside node"""
    import ast
    out = []
    for n in ast.walk(node):
        tg = []
        if isinstance(n, ast.Assign): tg = n.targets
        elif isinstance(n, (ast.AugAssign, ast.AnnAssign, ast.NamedExpr)): tg = [n.target]
        elif isinstance(n, (ast.For, ast.AsyncFor)): tg = [n.target]
        elif isinstance(n, ast.Delete): tg = n.targets
        elif isinstance(n, (ast.With, ast.AsyncWith)): tg = [i.optional_vars for i in n.items if i.optional_vars is not None]
        def tgt(t):
            if isinstance(t, (ast.Tuple, ast.List)):
                for e in t.elts: tgt(e)
            elif isinstance(t, ast.Starred): tgt(t.value)
            elif isinstance(t, ast.Subscript): out.append((_dotted(t.value) or '?') + '[]')       # element store: mutates the container, rebinds nothing
            else: out.append(_dotted(t) or '?')
        for t in tg: tgt(t)
    return out
def _posargs(call, names):
    """argument expressions of a call by parameter name (positional order `names`)"""
    d = {names[i]: a for i, a in enumerate(call.args) if i < len(names)}
    d.update({k.arg: k.value for k in call.keywords if k.arg}); return d
TI_FIELDS = ['tensor_id', 'op_codes', 'buffers', 'subgraph', 'producer', 'consumers', 'quant_params']
INST_FIELDS = ['transformation', 'tensor_id', 'producer', 'consumers', 'parameters']

def fam_callsites(M):
    import ast
    goals = []; mut = getattr(M, 'mut', {}); inputs = dict(family='callsites'); qt = M.qtyping
    fn = lambda rel, q: core.Fn(rel, q, src_override=mut.get(rel))
    # ---- insert_dequant: quantize_tensor(transformation_input) on the untouched input
    f = fn(DI, 'insert_dequant'); par = f.node.args.args[0].arg; cs = _calls(f.node, 'quantize_tensor.quantize_tensor'); st = _stores(f.node)
    ok = len(cs) == 1 and len(cs[0].args) == 1 and not cs[0].keywords and _dotted(cs[0].args[0]) == par and not any(x == par or x in (f'{par}.quant_params', f'{par}.tensor_id', f'{par}.buffers', f'{par}.subgraph') for x in st)
    goals.append(G('passes-its-own-input-to-quantize_tensor', 'dequant_insert.insert_dequant', ok=bool(ok), backend='ast-dataflow', inputs=inputs, observed=dict(calls=len(cs), stores=[x for x in st if x.startswith(par)]),
                   clause='insert_dequant calls quantize_tensor.quantize_tensor exactly once, on its own parameter object, and never rebinds it or its tensor_id / quant_params / buffers / subgraph: the tensor and the parameters are the instruction\'s'))
    # ---- insert_quant: quantize_tensor on a NEW activation tensor (buffer 0) with the instruction's parameters
    f = fn(QI, 'insert_quant'); par = f.node.args.args[0].arg; cs = _calls(f.node, 'quantize_tensor.quantize_tensor'); st = _stores(f.node); ok = False; obs = {}
    if len(cs) == 1 and len(cs[0].args) == 1 and isinstance(cs[0].args[0], ast.Call) and _dotted(cs[0].args[0].func) == 'transformation_utils.TransformationInput':
        a = _posargs(cs[0].args[0], TI_FIELDS); new = _dotted(a.get('tensor_id'))
        defs = [n for n in ast.walk(f.node) if isinstance(n, ast.Assign) and any(_dotted(t) == new for t in n.targets)]
        ok = (new is not None and st.count(new) == 1 and len(defs) == 1 and isinstance(defs[0].value, ast.Call) and _dotted(defs[0].value.func) == 'transformation_utils.add_new_activation_tensor'
              and _dotted(a.get('quant_params')) == f'{par}.quant_params' and _dotted(a.get('buffers')) == f'{par}.buffers' and _dotted(a.get('subgraph')) == f'{par}.subgraph'
              and not any(x == par or x in (f'{par}.quant_params', f'{par}.buffers', f'{par}.subgraph') for x in st))
        obs = dict(new_tensor=new, definitions=len(defs))
    goals.append(G('quantizes-a-new-activation-tensor-with-the-given-parameters', 'quant_insert.insert_quant', ok=bool(ok), backend='ast-dataflow', inputs=inputs, observed=obs,
                   clause='insert_quant calls quantize_tensor exactly once, on TransformationInput(id returned by add_new_activation_tensor, ..., transformation_input.quant_params) with the same buffers / subgraph'))
    f2 = fn(TU, 'add_new_activation_tensor')
    b0 = [n for n in ast.walk(f2.node) if isinstance(n, ast.Assign) and any((_dotted(t) or '').endswith('.buffer') for t in n.targets)]
    ok = len(b0) == 1 and isinstance(b0[0].value, ast.Constant) and b0[0].value.value == 0
    goals.append(G('new-activation-tensor-is-on-buffer-0', 'transformation_utils.add_new_activation_tensor', ok=bool(ok), backend='ast-dataflow', inputs=inputs, clause='the only store to .buffer in add_new_activation_tensor is `= 0`: the tensor insert_quant quantizes has no stored data, so quantize_tensor writes no buffer for it'))
    # native confirmation on a real graph: parameters that (wrongly) carried data would still not be stored by insert_quant
    m = mg.build('GELU'); sg = M.schema.SubGraphT(); sg.tensors = m.tensors; sg.operators = [m.op]; sg.inputs = np.array([m.ins[0]], np.int32); sg.outputs = np.array(m.outs, np.int32)
    tu = importlib.import_module('ai_edge_quantizer.transformations.transformation_utils'); qi = importlib.import_module('ai_edge_quantizer.transformations.quant_insert')
    pq = qt.UniformQuantParams(8, None, np.array([0.5], np.float32), np.array([3], np.int8), False, quantized_data=np.arange(16, dtype=np.int8).reshape(1, 2, 2, 4))
    nb = len(m.buffers); before = [b.data for b in m.buffers]
    with cc.guarded(goals, 'native-run', 'quant_insert.insert_quant', inputs):
        qi.insert_quant(tu.TransformationInput(m.ins[0], [], m.buffers, sg, -1, [0], pq)); newt = sg.tensors[-1]
        ok = newt.buffer == 0 and newt.type == 9 and len(m.buffers) == nb and all(a is b for a, b in zip(before, [b.data for b in m.buffers])) and m.tensors[m.ins[0]].type == 0 and m.tensors[m.ins[0]].quantization is None
        goals.append(G('native-run.new-tensor-on-buffer-0-no-buffer-written-source-tensor-untouched', 'quant_insert.insert_quant', ok=bool(ok), inputs=inputs, clause='real insert_quant on a real graph: the new tensor is INT8 on buffer 0, no buffer object changes, the source tensor keeps FLOAT32 and no quantization record'))
    # ---- performer: dispatch table and the TransformationInput it builds
    f = fn(TP, 'TransformationPerformer._apply_single_transformation'); cs = _calls(f.node, 'transformation_utils.TransformationInput'); ok = False; obs = {}
    if len(cs) == 1:
        a = _posargs(cs[0], TI_FIELDS); inst = (_dotted(a.get('quant_params')) or '.').rpartition('.')[0]
        outer = [c for c in ast.walk(f.node) if isinstance(c, ast.Call) and cs[0] in c.args and isinstance(c.func, ast.Subscript) and _dotted(c.func.value) == 'self._transformation_registration' and _dotted(c.func.slice) == f'{inst}.transformation']
        ok = (_dotted(a.get('quant_params')) == f'{inst}.parameters' and _dotted(a.get('tensor_id')) == f'{inst}.tensor_id' and len(outer) == 1 and len(outer[0].args) == 1 and not outer[0].keywords
              and not any(x.endswith('.parameters') or x.endswith('.quantized_data') for x in _stores(f.node)))
        # `instruction` is bound exactly once, to <first parameter>.instructions[<second parameter>]
        pa = [a_.arg for a_ in f.node.args.args]; defs = [n for n in ast.walk(f.node) if isinstance(n, ast.Assign) and any(_dotted(t) == inst for t in n.targets)]
        ok = ok and _stores(f.node).count(inst) == 1 and len(defs) == 1 and isinstance(defs[0].value, ast.Subscript) and _dotted(defs[0].value.value) == f'{pa[1]}.instructions' and _dotted(defs[0].value.slice) == pa[2]
        obs = dict(instruction=inst, dispatch_calls=len(outer), definitions=len(defs))
    goals.append(G('dispatch-receives-instruction.tensor_id-and-instruction.parameters', 'transformation_performer.TransformationPerformer._apply_single_transformation', ok=bool(ok), backend='ast-dataflow', inputs=inputs, observed=obs,
                   clause='the registered transformation is called on TransformationInput(instruction.tensor_id, ..., instruction.parameters) where instruction is transformation_inst.instructions[transformation_index], bound once; no .parameters store'))
    src_tp = mut.get(TP, core.read_source(TP)); bad = [x for x in _stores(ast.parse(src_tp)) if x.endswith('.parameters') or x.endswith('.quantized_data')]
    goals.append(G('no-store-to-parameters-anywhere-in-the-performer', 'transformation_performer.TransformationPerformer._update_instructions', ok=not bad, backend='ast-dataflow', inputs=inputs, observed=bad, clause='transformation_performer.py contains no assignment to a .parameters / .quantized_data attribute'))
    tp = importlib.import_module('ai_edge_quantizer.transformation_performer'); di = importlib.import_module('ai_edge_quantizer.transformations.dequant_insert'); qtm = importlib.import_module('ai_edge_quantizer.transformations.quantize_tensor')
    regt = tp.TransformationPerformer()._transformation_registration; T_ = qt.QuantTransformation
    ok = regt.get(T_.QUANTIZE_TENSOR) is qtm.quantize_tensor and regt.get(T_.ADD_DEQUANTIZE) is di.insert_dequant and regt.get(T_.ADD_QUANTIZE) is qi.insert_quant
    goals.append(G('registration-table', 'transformation_performer.TransformationPerformer.__init__', ok=bool(ok), inputs=inputs, clause='QUANTIZE_TENSOR -> quantize_tensor.quantize_tensor, ADD_DEQUANTIZE -> insert_dequant, ADD_QUANTIZE -> insert_quant (the function objects themselves)'))
    # ---- instruction generator: every instruction's parameters field is an OpToTensorParams.parameters of the SAME tensor's entry, read not built
    src = mut.get(TIG, core.read_source(TIG)); tree = ast.parse(src); cs = _calls(tree, 'qtyping.TransformationInst'); badc = []
    for c in cs:
        a = _posargs(c, INST_FIELDS); d = _dotted(a.get('parameters')) if not isinstance(a.get('parameters'), ast.Subscript) else None
        pv = a.get('parameters')
        if not (isinstance(pv, ast.Attribute) and pv.attr == 'parameters'): badc.append(c.lineno)
    bad = [x for x in _stores(tree) if x.endswith('.parameters') or x.endswith('.quantized_data')]
    goals.append(G('every-instruction-carries-an-emitted-parameters-object', 'transformation_instruction_generator.TransformationInstructionsGenerator._quant_params_to_transformation_insts', ok=bool(cs) and not badc and not bad, backend='ast-dataflow',
                   inputs=inputs, observed=dict(constructions=len(cs), not_an_attribute_read=badc, stores=bad),
                   clause='every qtyping.TransformationInst(...) in transformation_instruction_generator.py takes its parameters from an `<OpToTensorParams or instruction>.parameters` read; the file never assigns .parameters / .quantized_data'))
    return goals

def f16_ref_bits(v):
    """IEEE binary16 bits of round-to-nearest-even(v) computed WITHOUT numpy (CPython's struct 'e' packs a double with RNE; float32 -> double is exact)"""
    v = float(v)
    try: return struct.unpack('<H', struct.pack('<e', v))[0]
    except OverflowError: return 0xFC00 if v < 0 else 0x7C00

def bounded(rep, M):
    # float16 rounding: numpy's astype(float16) against CPython's struct 'e' on boundary and regular values
    vals = [0.0, -0.0, 1.0, 1.0 + 2 ** -11, 1.0 + 3 * 2 ** -11, 1.0 + 2 ** -10, 65504.0, 65519.0, 65520.0, 1e6, -1e6, 2 ** -24, 2 ** -25, 1.5 * 2 ** -25, 2 ** -14, 6.1e-5, 0.1, -0.3, 3.14159, 1e-8, 123.456]
    vals += [float(np.float32(x)) for x in np.linspace(-70000, 70000, 2001)] + [float(np.float32(x)) for x in np.geomspace(1e-9, 1e5, 1500)]
    with np.errstate(all='ignore'): arr = np.array(vals, np.float32); got = arr.astype(np.float16).view(np.uint16)
    fails = sum(1 for a, g in zip(arr, got) if f16_ref_bits(a) != int(g))
    rep.add_bounded('numpy float32 -> float16 cast (round to nearest even, overflow to inf, subnormals)', 'ties, subnormal and overflow boundaries + 3500 regular values, compared bit for bit with CPython struct "e"', len(vals), fails)
    # end to end on the real code: statistics -> parameters -> quantize_tensor -> independent decode -> dequantize in binary64
    qt = M.qtyping; cases = f2 = 0; worst = 0.0
    for (opn, adj), bits, sym, gran, shape in itertools.product((('FULLY_CONNECTED', False), ('BATCH_MATMUL', False), ('BATCH_MATMUL', True)), (4, 8), (True, False), ('TENSORWISE', 'CHANNELWISE'), ((3, 5), (4, 3), (2, 1), (3, 1))):
        for seed in range(3 if opn == 'FULLY_CONNECTED' else 1):
            m = mg.build(opn, bias=False, weight_shape=shape, adj_y=adj); data = (m.data[m.weight] * np.float32(0.31 + seed) + np.float32(seed - 1)).astype(np.float32)
            m.buffers[m.tensors[m.weight].buffer].data = np.frombuffer(data.tobytes(), dtype=np.uint8)
            wcfg = qt.TensorQuantizationConfig(bits, sym, qt.QuantGranularity(gran)); oi, gi = mg.infos(m, qt, qt.OpQuantizationConfig(weight_tensor_config=wcfg, compute_precision=qt.ComputePrecision.INTEGER))
            cases += 1
            try:
                st = M.utils.init_tensor_min_max(m.tensors[m.weight], gi, oi); p = M.utils._get_tensor_quant_params(oi, st, wcfg, tensor_content=data)
                tu = importlib.import_module('ai_edge_quantizer.transformations.transformation_utils'); sg = M.schema.SubGraphT(); sg.tensors = m.tensors; sg.operators = [m.op]
                M.qt.quantize_tensor(tu.TransformationInput(m.weight, [], m.buffers, sg, -1, [0], p))
            except Exception: f2 += 1; continue
            T = m.tensors[m.weight]; raw = bytes(np.asarray(m.buffers[T.buffer].data).tobytes()); n = data.size
            codes = np.array(ref_unpack(raw, n) if bits == 4 else list(np.frombuffer(raw, dtype=np.int8)), np.int64).reshape(shape)
            sc = np.array(T.quantization.scale, np.float64); zp = np.array(T.quantization.zeroPoint, np.int64)
            if sc.size > 1:
                # per-channel parameters are laid along the tensor's OWN quantizedDimension (decoding with the tensor's own parameters)
                qd = int(T.quantization.quantizedDimension); bshape = [1] * len(shape)
                if not (0 <= qd < len(shape)) or sc.size != shape[qd]:
                    f2 += 1
                    if not DECODE_FAIL: DECODE_FAIL.append(dict(op=opn, adj_y=adj, bits=bits, symmetric=sym, granularity=str(gran), shape=list(shape), content_seed=seed, undecodable=f'{sc.size} scales stored with quantized_dimension={qd} of extent {shape[qd] if 0 <= qd < len(shape) else None}'))
                    continue
                bshape[qd] = -1; sc = sc.reshape(bshape); zp = zp.reshape(bshape)
            err = np.abs((codes - zp) * sc - data.astype(np.float64)) / sc; worst = max(worst, float(err.max()))
            if len(raw) != ((n + 1) // 2 if bits == 4 else n) or err.max() > (0.5 if sym else 1.0) * (1 + 1e-3) + 1e-3:
                f2 += 1
                if not DECODE_FAIL: DECODE_FAIL.append(dict(op=opn, adj_y=adj, bits=bits, symmetric=sym, granularity=str(gran), shape=list(shape), content_seed=seed, stored_bytes=len(raw), worst_error_in_steps=float(err.max()), allowed_steps=0.5 if sym else 1.0))
    if E2E:
        rep.add_bounded('registered materialize function -> quantize_tensor on the minimal op: stored byte length vs written type and shape', 'every constant with QUANTIZE_TENSOR / ADD_DEQUANTIZE of the materialize table (the structural cause is the obligation family "materialize")', E2E[0][0], E2E[0][1],
                        note='failures here are the natively observed consequence of the refuted materialize obligations (INT8 tensor keeping its float32 bytes)')
    rep.add_bounded('init_tensor_min_max -> _get_tensor_quant_params -> quantize_tensor -> independent decode (binary32 arithmetic of the real code)', f'FULLY_CONNECTED and BATCH_MATMUL (adj_y False/True) x 4/8 bit x sym/asym x per-tensor/per-channel x 4 shapes (odd and even sizes) x 3/1 contents, decoded along the stored quantizedDimension; worst error {worst:.4f} steps', cases, f2)
    return fails + f2

DECODE_FAIL = []
# ------------------------------------------------------------------------------------------------ canaries
CANARIES = [
    ('_pack_data: [::2] and [1::2] swapped', cc.QT, [('flattened_data[::2] & 0x0F', 'flattened_data[1::2] & 0x0F'), ('np.left_shift(flattened_data[1::2], 4)', 'np.left_shift(flattened_data[::2], 4)')], 'pack', ['bitwidth4.n-even.low-nibble-is-element-2k', 'bitwidth4.n-even.high-nibble-is-element-2k+1']),
    ('_pack_data: & 0x0F dropped', cc.QT, [('flattened_data[::2] & 0x0F', 'flattened_data[::2]')], 'pack', ['bitwidth4.n-odd.high-nibble-is-element-2k+1']),
    ('_pack_data: odd tail padded with 0xFF', cc.QT, [('constant_values=0', 'constant_values=255')], 'pack', ['bitwidth4.n-odd.odd-tail-high-nibble-is-0']),
    ('_pack_data: bitwidth <= 4 -> bitwidth < 4', cc.QT, [('  if bitwidth <= 4:\n    even_data', '  if bitwidth < 4:\n    even_data')], 'pack', ['bitwidth4.n-even.length-is-ceil(n/2)', 'bitwidth4.n-even.result-is-a-uint8-vector']),
    ('_pack_data: left_shift by 3', cc.QT, [('flattened_data[1::2], 4)', 'flattened_data[1::2], 3)')], 'pack', ['bitwidth4.n-even.high-nibble-is-element-2k+1']),
    ('quantize_tensor: buffer 0 overwritten (if tensor.buffer dropped)', cc.QT, [('  if tensor.buffer:\n', '  if True:\n')], 'quantize_tensor', ['int8.n6-even.buffer0.data.per-tensor.no-buffer-is-written']),
    ('quantize_tensor: zeroPoint stored as int32', cc.QT, [('zero_point.flatten().astype(np.int64)', 'zero_point.flatten().astype(np.int32)')], 'quantize_tensor', ['int8.n6-even.own-buffer.data.per-channel.type-scale-zeroPoint-quantizedDimension-written-from-the-parameters']),
    ('quantize_tensor: packs with bitwidth 8 always', cc.QT, [('_pack_data(\n          transformation_input.quant_params.num_bits,', '_pack_data(\n          8,')], 'quantize_tensor', ['int4.n3-odd.own-buffer.data.per-tensor.buffer-is-_pack_data(num_bits,bytes(quantized_data))']),
    ('_round_and_clip: qmin + 1 -> qmin (bias no longer narrow)', cc.UQ, [('          qmin + 1,', '          qmin,')], 'bias', ['in8.result-is-clip(rint(bias/scale),qmin+1,qmax)', 'in8.result-in-narrow-range']),
    ('symmetric_quantize_bias_tensor: bias quantized with twice the returned scale', cc.UQ, [('scale=effective_output_scale,', 'scale=effective_output_scale * 2,')], 'bias', ['in8.pre-rounding-value-is-bias/scale']),
    ('float_casting.materialize_fc_conv: .astype(np.float16) dropped', cc.FC, [('num_bits=16, quantized_data=weight_content.astype(np.float16)', 'num_bits=16, quantized_data=weight_content')], 'fp16', ['FULLY_CONNECTED.explicit_dequantize-True.bias.stored-weight-is-content.astype(float16)']),
    ('_get_tensor_transformation_params_wrapper: shared parameters keep the other tensor\'s quantized_data (the pre-fix behaviour: recomputation branch dropped)', cc.UTILS,
     [('  elif isinstance(quant_params, qtyping.UniformQuantParams):', '  elif False:')], 'materialize',
     ['CONCATENATION.srq-a8asym.constant-operands-x1.every-rewritten-constant-carries-its-own-quantized-data', 'SPLIT.srq-a8asym.constant-operands-x.no-activation-carries-quantized-data', 'RESHAPE.srq-a16sym.constant-operands-x.no-activation-carries-quantized-data']),
    ('insert_quant: quantize_tensor applied to the SOURCE tensor instead of the new one', QI_, [('          new_tensor_id,\n          transformation_input.op_codes,', '          transformation_input.tensor_id,\n          transformation_input.op_codes,')], 'callsites', ['quantizes-a-new-activation-tensor-with-the-given-parameters']),
    ('performer: dispatch drops instruction.parameters', 'transformation_performer.py', [('            instruction.parameters,\n        )', '            None,\n        )')], 'callsites', ['dispatch-receives-instruction.tensor_id-and-instruction.parameters']),
    ('_get_tensor_quant_params: quantized data returned flattened', cc.UTILS, [('      quantized_data=quantized_vars,\n  )', '      quantized_data=quantized_vars.flatten(),\n  )')], 'materialize', ['CONV_2D.srq-a8asym.weights-only-constants.every-rewritten-constant-carries-its-own-quantized-data', 'ADD.srq-a8asym.constant-operands-x1.every-rewritten-constant-carries-its-own-quantized-data']),
    ('_get_tensor_quant_params: content quantized with other parameters than those returned', cc.UTILS, [('        tensor_content, quant_params\n    )', '        tensor_content, qtyping.UniformQuantParams(scale=scale * 2, zero_point=zp, num_bits=tensor_quant_config.num_bits, symmetric=tensor_quant_config.symmetric, quantized_dimension=quantized_dim)\n    )')], 'params', ['b8.sym.channelwise.constant.stored-data-is-uniform_quantize(content,returned-params)']),
]

FAMILIES = ('lemmas', 'bias', 'params', 'pack', 'quantize_tensor', 'fp16', 'materialize', 'callsites')
def families(M, only=None):
    fam = {'lemmas': lambda: fam_lemmas(M), 'bias': lambda: [g for g in cc.fam_bias(M) if 'C05' in g.props],
           'params': lambda: [g for g in cc.fam_params(M, [c for c in cc.PARAM_CONFIGS if c[3]]) if 'C05' in g.props],
           'pack': lambda: fam_pack(M), 'quantize_tensor': lambda: fam_quantize_tensor(M), 'fp16': lambda: fam_fp16(M), 'materialize': lambda: fam_materialize(M), 'callsites': lambda: fam_callsites(M)}
    out = []
    for k in FAMILIES:
        if only is None or k in only:
            gl = fam[k]()
            for g in gl: g.family = k
            out += gl
    return out

def saturation_note(rep, M):
    """outside the property ("unless that value saturates the bias type") but worth a line in the evidence: 64-bit bias, upper saturation"""
    qt = M.qtyping
    pin = qt.UniformQuantParams(16, None, np.array([[1e-4 / 32767]], np.float32), np.zeros((1, 1), np.int32), True); pw = qt.UniformQuantParams(8, None, np.array([[1e-4 / 127]], np.float32), np.zeros((1, 1), np.int32), True)
    with np.errstate(all='ignore'):
        import warnings
        with warnings.catch_warnings():
            warnings.simplefilter('ignore'); p = M.uq.symmetric_quantize_bias_tensor(np.array([30000.0], np.float32), pin, pw)
    q = int(p.quantized_data[0])
    rep.extra['observation_int64_bias_saturation'] = dict(inputs=dict(bias=30000.0, input_scale=float(pin.scale[0, 0]), weight_scale=float(pw.scale[0, 0]), input_num_bits=16), quantized=q, dequantized=q * float(p.scale[0]),
        text='float(2**63 - 1) == 2.0**63, so np.clip does not protect the int64 cast at the upper end: a bias with rint(bias/scale) >= 2**63 is stored as INT64_MIN (sign flips) instead of INT64_MAX. '
             'The property exempts saturating values, so this is recorded as an observation, not a violation; the 64-bit cast obligation is stated for rint(bias/scale) <= 2**63-1.')
    if q < 0: rep.notes.append(f'observation (outside C05 as stated): 16-bit activations, bias=30000, scale={float(p.scale[0]):.3e}: rint(bias/scale) >= 2**63 is stored as {q} (INT64_MIN), dequantizes to {q * float(p.scale[0]):.1f}')

def run(rep):
    M = cc.load_mods(); fns = {k: rep.fn(core.Fn(rel, q)) for k, (rel, q) in FNS.items()}
    rep.trust('numpy elementwise operations = pointwise lifting on the promoted dtype; np.rint within 1/2, monotone, identity on integers; np.clip = min(max(.))')
    rep.trust('uint8 & int, np.left_shift(uint8, int), .astype(uint8), np.bitwise_or(uint8, uint8) are the 8-bit machine operations (result dtypes taken from numpy itself); a[::2] / a[1::2] select the even / odd positions; np.pad(a, (0, 1), constant_values=c) appends c')
    rep.trust('ndarray.tobytes / np.frombuffer(dtype=uint8) expose the little-endian two\'s-complement bytes of the array in C order')
    rep.trust('ndarray.astype(np.float16) rounds to nearest even (IEEE 754 binary16), overflow to inf: numpy semantics, compared with CPython struct "e" in a bounded stand-in only')
    rep.trust('C17 (cited, not redone): uniform_quantize == clip(rint(x*(1/s) + zp), qmin [+1 when symmetric], qmax) with an exact cast, for arbitrary valid parameters and 4/8/16 bits; uniform_dequantize == (q - zp)*s; '
              'tensor_zp_scale_from_min_max == the reference parameters; fix_quantization_params_rank puts the channel axis at quantized_dimension and 1 elsewhere. '
              'C04 (cited): statistics of a constant are np.min / np.max of its content over the complement of the quantized dimension (so mn <= x <= mx for every element x of the slice)')
    rep.assume('float32/float64 arithmetic treated as real arithmetic in the decoding-error lemma and in the bias goals (x*(1/s) vs x/s, products of scales); the binary32 behaviour of the real code is sampled in a bounded stand-in')
    rep.assume('a bias whose rint(bias/scale) exceeds 2**63-1 (64-bit bias, 16-bit activations) is outside the cast obligation: the property exempts saturating values; see observation_int64_bias_saturation in the evidence')
    rep.assume('BLOCKWISE (emulated sub-channel) quantization and its transposed storage are outside the property text and not under contract')
    rep.trust('CONTRACT CLAUSE requires(quantize_tensor): tensor.buffer != 0 and buffers[tensor.buffer].data is not None  <=>  quant_params.quantized_data is not None. '
              'Not an assumption about the environment: it is established for every caller by the obligation families `materialize` (every registered materialize function x constant / activation operands) '
              'and `callsites` (instruction generator, performer dispatch, insert_dequant, insert_quant pass `parameters` on unchanged); the table of `quantize_tensor` obligations is stated under it')
    try:
        goals = families(M)
    except symnp.Undecided as e:
        # outside the symbolic front end: undecided by the contracts (exit 2), unless the native decode stand-in finds a failing input (then a VIOLATION with that input)
        rep.add(core.Ob('C05/engine-subset', None, 'cpython-exec-symnp', core.UNKNOWN, 0.0, detail=f'the symbolic front end could not follow the code: {e}', clause='carriers within the symbolic-numpy subset'))
        DECODE_FAIL.clear(); bounded(rep, M)
        if DECODE_FAIL:
            ob = core.Ob('C05/bounded.decode/stored-constant-decodes-within-the-step-bound', None, 'bounded-native', core.REFUTED, 0.0, detail=str(DECODE_FAIL[0]), clause='stored bytes decode to within the step bound of the float constant')
            ob.replay = dict(confirmed=True, inputs=DECODE_FAIL[0]); rep.add(ob)
        return
    res = cc.discharge(goals); cc.register(rep, 'C05', fns, goals, res)
    base = {g.id: r[0] for g, r in zip(goals, res)}
    fails = bounded(rep, M); saturation_note(rep, M)
    # the code-to-reference links that the lemma chain rests on (parameters = reference formulas, quantize = clip(rint(x/s+zp)),
    # dequantize = (q-zp)*s) are the C17 obligations: re-generated and re-discharged here from the current source, not cited
    try:
        from props import C17 as _c17
        uqm = _c17.load_module(); qtm = importlib.import_module('ai_edge_quantizer.qtyping')
        lg = [g for g in _c17.generate(uqm, qtm) if g.fn and g.id.split('.')[0] in ('params', 'quantize', 'dequantize')]
        _c17.GOALS = lg; lres = core.run_pool(_c17._discharge, len(lg))
        for g, (st, dt, be, model) in zip(lg, lres):
            fnl = rep.fn(core.Fn(_c17.REL, g.fn)); ob = core.Ob(f'C05/uniform_quantize_tensor.{g.fn}/link.{g.id}', fnl, be, st, dt, detail=model, clause=str(g.goal)[:200])
            if st == 'refuted' and g.law:
                ob.replay = _c17.native_law(uqm, qtm, g.law, g.cfg, model if isinstance(model, dict) else {})
                if not ob.replay.get('confirmed') and any(k_ in g.id for k_ in _c17.LINKS): ob.status = core.INCONCLUSIVE
            if st != 'proved' and rep.finding_for(ob.id): continue
            rep.add(ob)
    except symnp.Undecided as e:
        rep.errors.append(f'front end could not follow uniform_quantize_tensor: {e}')
    if DECODE_FAIL:
        # a natively failing input of the end-to-end decode stand-in is a replayed counterexample of the property itself
        ob = core.Ob('C05/bounded.decode/stored-constant-decodes-within-the-step-bound', None, 'bounded-native', core.REFUTED, 0.0, detail=str(DECODE_FAIL[0]),
                     clause='bytes stored by init_tensor_min_max -> _get_tensor_quant_params -> quantize_tensor decode to within half a step (symmetric) / one step (asymmetric) of the float constant')
        ob.replay = dict(confirmed=True, inputs=DECODE_FAIL[0]); rep.add(ob)
    elif (fails or (E2E and E2E[0][1])) and all(v == 'proved' for v in base.values()): rep.errors.append('bounded stand-in disagrees with the proved obligations')
    # covers
    s = z3.Solver(); mn, mx, x = z3.Reals('mn mx x'); Q = z3.Int('Q'); s.add(mn <= x, x <= mx, mn < 0, mx > 0, Q >= 7); rep.cover('lemmas.preconditions', s.check() == z3.sat)
    from vlib.symnp_ext import M_SYM
    s = z3.Solver(); k = z3.Int('k'); s.add(M_SYM >= 0, 0 <= k, 2 * k + 1 < 2 * M_SYM + 1); rep.cover('pack.index-preconditions', s.check() == z3.sat)
    s = z3.Solver(); si, sw = z3.Reals('si sw'); s.add(si > 0, sw > 0); rep.cover('bias.scales-positive', s.check() == z3.sat)
    for kf in FAMILIES: rep.cover(f'family.{kf}.non-empty', any(g.family == kf for g in goals))
    rep.extra['obligations_per_family'] = {kf: sum(1 for g in goals if g.family == kf) for kf in FAMILIES}
    Mi = cc.load_mods({cc.QT: core.read_source(cc.QT), cc.FC: core.read_source(cc.FC), cc.UQ: core.read_source(cc.UQ)})
    gi = families(Mi, only=['pack', 'quantize_tensor', 'fp16', 'bias']); ri = cc.discharge(gi, parallel=False)
    rep.cover('mutant-loader.identity-mutation-reproduces-all-verdicts', all(r[0] == base.get(g.id) for g, r in zip(gi, ri)) and len(gi) > 100)
    for name, rel, subs, fam, expect in CANARIES:
        src = core.read_source(rel); stale = [a for a, b in subs if a not in src]
        if stale: rep.canary(name, False, f'mutation site not found (stale canary): {stale[0][:40]}'); continue
        for a, b in subs: src = src.replace(a, b, 1)
        try:
            Mm = cc.load_mods({rel: src}); gl = [g for g in families(Mm, only=[fam]) if g.id in expect]
        except Exception as e:
            rep.canary(name, True, f'mutant rejected while executing: {type(e).__name__}: {e}'); continue
        missing = [e for e in expect if e not in {g.id for g in gl}]
        if missing and len(missing) == len(expect): rep.canary(name, False, f'expected obligations not generated: {missing}'); continue
        rs = cc.discharge(gl, parallel=False)
        rep.canary(name, any(r[0] != 'proved' for r in rs) and all(base.get(g.id) == 'proved' for g in gl), str([(g.id, r[0]) for g, r in zip(gl, rs)]))

def replay(payload):
    M = cc.load_mods(); inp = payload.get('inputs') or {}; oid = payload.get('obligation', ''); fam = inp.get('family')
    print('replaying', oid, inp)
    if fam == 'bias':
        rp = cc.native_bias(M, inp, {k: str(fractions.Fraction(inp[v])) for k, v in (('si', 'input_scale'), ('sw', 'weight_scale'), ('b', 'bias')) if v in inp}); print(rp); return 1 if rp['confirmed'] else 0
    if fam == 'params':
        rp = cc.native_params(M, inp, {'mn': str(fractions.Fraction(inp.get('min', 0.0))), 'mx': str(fractions.Fraction(inp.get('max', 0.0)))}); print(rp); return 1 if rp['confirmed'] else 0
    if fam == 'pack' and 'data' in inp:
        d = np.array(inp['data'], np.uint8); got = bytes(np.asarray(M.qt._pack_data(inp.get('bitwidth', 4), d)).astype(np.uint8)); print(dict(packed=list(got), expected=list(ref_pack(d)))); return 1 if got != ref_pack(d) else 0
    if 'bounded.decode' in oid:
        DECODE_FAIL.clear(); bounded(core.Report('C05', 'quick', 0), M); print(DECODE_FAIL[:1]); return 1 if DECODE_FAIL else 0
    goals = [g for g in families(M, only=[fam] if fam in FAMILIES else None) if oid.endswith('/' + g.id)]
    res = cc.discharge(goals, parallel=False)
    for g, r in zip(goals, res): print(g.id, r[0], g.observed)
    return 1 if any(r[0] != 'proved' for r in res) else 0
