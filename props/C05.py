"""C05 — stored quantized constants decode to within one step of the float originals.

Functions under contract
  uniform_quantize_tensor.symmetric_quantize_bias_tensor (+ _round_and_clip / assign_quantized_type / uniform_quantize reached through it;
      their own contracts -- clip(rint(.)) in the narrow range, exact cast, rank fix-up shapes -- are proved in C17 and cited)
  min_max_quantize_utils._get_tensor_quant_params (the stored data IS uniform_quantize(content, returned parameters))
  quantize_tensor._pack_data, quantize_tensor.quantize_tensor
  float_casting.materialize_fc_conv, materialize_conv2d_transpose, materialize_embedding_lookup

Structure
  (a) composition lemma over the REFERENCE functions only (no code): mn <= x <= mx  =>  |dequant(quant(x; params_ref(mn, mx))) - x| <= s/2,
      symmetric and asymmetric, for an arbitrary integer range qmax = Q >= 7, qmin = -Q-1 (every bit width at once), as a closed lemma
      chain: every hypothesis of a step is a precondition, a definitional fact of DIV / RINT, or the conclusion of an earlier step.
  (b) quantized bias == clip(rint(bias/scale)) / == rint(bias/scale) when not saturated; the float -> int cast is exact (z3 NRA on the
      terms produced by executing the real function on symbolic inputs).
  (c) _pack_data: the REAL function is executed on a symbolic byte array (vlib/symnp_ext.BVArray: z3 Array Int -> BitVec 8, length
      2m / 2m+1 for a symbolic m); nibble layout goals for an ARBITRARY index k are discharged by z3 (bit-vectors + linear integers).
  (d) quantize_tensor on real flatbuffer objects over the finite table bits x shape (odd / even element count) x buffer 0 / own buffer
      x quantized_data None / present x per-tensor / per-channel: what is written, where, and nothing else.
  (e) float16 casting: the stored array is content.astype(float16) and nothing else (opaque content: parametric in the data)."""
import fractions, importlib, itertools, struct, time
import numpy as np, z3
from vlib import core, symnp
from vlib.symnp import SymArray
from contracts import c04_common as cc, c04_minigraph as mg
from contracts.c04_common import G, F32

LEVEL = 'proof'
FNS = {
    'uniform_quantize_tensor.symmetric_quantize_bias_tensor': (cc.UQ, 'symmetric_quantize_bias_tensor'),
    'uniform_quantize_tensor._round_and_clip': (cc.UQ, '_round_and_clip'),
    'uniform_quantize_tensor.assign_quantized_type': (cc.UQ, 'assign_quantized_type'),
    'uniform_quantize_tensor.fix_quantization_params_rank': (cc.UQ, 'fix_quantization_params_rank'),
    'uniform_quantize_tensor.uniform_quantize': (cc.UQ, 'uniform_quantize'),
    'min_max_quantize_utils._get_tensor_quant_params': (cc.UTILS, '_get_tensor_quant_params'),
    'quantize_tensor._pack_data': (cc.QT, '_pack_data'),
    'quantize_tensor.quantize_tensor': (cc.QT, 'quantize_tensor'),
    'float_casting.materialize_fc_conv': (cc.FC, 'materialize_fc_conv'),
    'float_casting.materialize_conv2d_transpose': (cc.FC, 'materialize_conv2d_transpose'),
    'float_casting.materialize_embedding_lookup': (cc.FC, 'materialize_embedding_lookup'),
}
R = z3.RealVal; DIV, RINT = symnp.DIV, symnp.RINT; HALF = R('1/2')
def ab(t): return z3.If(t >= 0, t, -t)
def within(e, b): return z3.And(e <= b, -e <= b)

# ------------------------------------------------------------------------------------------------ (a) composition lemma chain (spec level)
def lemma_chain():
    """returns [(id, hyps, goal, clause)]; `have` maps step names to proved conclusions so that the chain is closed by construction"""
    out = []; mn, mx, x = z3.Reals('mn mx x'); Q = z3.Int('Q'); Qr = z3.ToReal(Q); eps = R(str(cc.MIN_RANGE))
    pre = [mn <= x, x <= mx]; rng = [Q >= 7]
    def step(name, hyps, goal, clause, have):
        out.append((name, hyps, goal, clause)); have[name.split('.')[1].split('-')[0]] = goal
    # ---------------- symmetric: s = max(|mn|,|mx|,eps)/qmax, zp = 0, codes in [-qmax, qmax]
    h = {}
    B = cc.zmax(cc.zmax(ab(mn), ab(mx)), eps); s = DIV(B, Qr); Fs = symnp.div_fact(B, Qr)
    u = DIV(x, s); Fu = symnp.div_fact(x, s); y = u; r = RINT(y); Fr = symnp.rint_facts(y)[0]; rr = z3.ToReal(r)
    q = z3.If(rr < -Qr, -Q, z3.If(rr > Qr, Q, r)); qr = z3.ToReal(q)
    step('symmetric.S1-|x|<=bound-and-bound-positive', pre, z3.And(ab(x) <= B, B > 0), 'mn <= x <= mx => |x| <= max(|mn|,|mx|,1e-4) > 0', h)
    step('symmetric.S2-scale-positive-and-scale*qmax==bound', rng + [h['S1'], Fs], z3.And(s > 0, s * Qr == B), 's = bound/qmax > 0', h)
    step('symmetric.S3-x-inside-the-representable-range', rng + [h['S1'], h['S2']], z3.And(-(Qr * s) <= x, x <= Qr * s), '-qmax*s <= x <= qmax*s', h)
    step('symmetric.S4-(x/s)*s==x', [h['S2'], Fu], u * s == x, 'definition of the quotient (s != 0)', h)
    step('symmetric.S5-x/s-inside-[-qmax,qmax]', rng + [h['S2'], h['S3'], h['S4']], z3.And(-Qr <= u, u <= Qr), '-qmax <= x/s <= qmax', h)
    step('symmetric.S6-clip(rint(x/s))-within-half-a-code-of-x/s', rng + [h['S5'], Fr], within(qr - y, HALF), '|q - x/s| <= 1/2 with q = clip(rint(x/s), -qmax, qmax)', h)
    step('symmetric.S7-decoding-error-at-most-half-a-step', [h['S2'], h['S4'], h['S6']], within(qr * s - x, s / 2), 'CONCLUSION (symmetric): |q*s - x| <= s/2 for every x in [mn, mx], every qmax >= 7', h)
    step('symmetric.S8-code-inside-the-narrow-range', rng, z3.And(q >= -Q, q <= Q), '-qmax <= q <= qmax (the narrow range: the cast to the stored integer type cannot wrap)', h)
    # ---------------- asymmetric: s = max(max(mx,0)-min(mn,0),eps)/(qmax-qmin), zp = rint(qmin - min(mn,0)/s), codes in [qmin, qmax]
    h = {}; qmin = -Qr - 1; qmax = Qr; W = 2 * Qr + 1
    bmax = z3.If(mx > 0, mx, 0); bmin = z3.If(mn < 0, mn, 0); Rg = cc.zmax(bmax - bmin, eps)
    s = DIV(Rg, W); Fs = symnp.div_fact(Rg, W); t = DIV(bmin, s); Ft = symnp.div_fact(bmin, s); zpre = qmin - t; zp = RINT(zpre); zr = z3.ToReal(zp); Fz = symnp.rint_facts(zpre)[0]
    u = DIV(x, s); Fu = symnp.div_fact(x, s); y = u + zr; r = RINT(y); Fr = symnp.rint_facts(y)[0]; rr = z3.ToReal(r)
    q = z3.If(rr < qmin, -Q - 1, z3.If(rr > qmax, Q, r)); qr = z3.ToReal(q)
    step('asymmetric.A1-x-inside-[min(mn,0),max(mx,0)]-range-positive', pre, z3.And(bmin <= x, x <= bmax, bmin <= 0, bmax >= 0, Rg >= bmax - bmin, Rg > 0), 'zero is included in the range; range >= 1e-4 > 0', h)
    step('asymmetric.A2-scale-positive-and-scale*(qmax-qmin)==range', rng + [h['A1'], Fs], z3.And(s > 0, s * W == Rg), 's = range/(qmax-qmin) > 0', h)
    step('asymmetric.A3-quotients', [h['A2'], Ft, Fu], z3.And(t * s == bmin, u * s == x), '(bmin/s)*s == bmin and (x/s)*s == x', h)
    step('asymmetric.A4-bmin/s<=x/s', [h['A1'], h['A2'], h['A3']], t <= u, 'division by s > 0 is monotone', h)
    step('asymmetric.A5-x/s<=bmin/s+(qmax-qmin)', rng + [h['A1'], h['A2'], h['A3']], u <= t + W, 'x <= bmax <= bmin + range', h)
    step('asymmetric.A6-zero-point-inside-[qmin,qmax]', rng + [h['A1'], h['A2'], h['A3'], Fz], z3.And(zr >= qmin, zr <= qmax), 'qmin <= zp <= qmax', h)
    step('asymmetric.A7-pre-rounding-value-within-half-a-code-of-[qmin,qmax]', rng + [h['A4'], h['A5'], Fz], z3.And(qmin - HALF <= y, y <= qmax + HALF), 'qmin - 1/2 <= x/s + zp <= qmax + 1/2', h)
    step('asymmetric.A8-clip(rint(y))-within-half-a-code-of-y', rng + [h['A7'], Fr], within(qr - y, HALF), '|q - (x/s + zp)| <= 1/2 with q = clip(rint(x/s + zp), qmin, qmax)', h)
    step('asymmetric.A9-decoding-error-at-most-half-a-step', [h['A2'], h['A3'], h['A8']], within((qr - zr) * s - x, s / 2), '|(q - zp)*s - x| <= s/2 over the reals', h)
    step('asymmetric.A10-decoding-error-at-most-one-step', [h['A2'], h['A9']], within((qr - zr) * s - x, s), 'CONCLUSION (asymmetric, as stated in the property): |(q - zp)*s - x| <= s', h)
    step('asymmetric.A11-code-inside-the-range', rng, z3.And(q >= -Q - 1, q <= Q), 'qmin <= q <= qmax', h)
    return out

def fam_lemmas(M=None):
    gl = []
    for name, hyps, goal, clause in lemma_chain():
        g = G(f'composition.{name}', None, hyps, goal, clause=clause, inputs=dict(family='lemmas')); gl.append(g)
    # decoding an int4 nibble (TFLite: two's complement, sign-extended) returns the stored 8-bit code exactly when the code is a 4-bit value
    v = z3.BitVec('v', 8)
    gl.append(G('composition.int4.sign-extended-low-nibble-recovers-the-code', None, [v >= -8, v <= 7], z3.SignExt(4, z3.Extract(3, 0, v)) == v, bv=True, inputs=dict(family='lemmas'),
                clause='-8 <= code <= 7 (8-bit two\'s complement) => sign_extend(code & 0xF) == code: the packed nibble decodes to the quantized value'))
    return gl

# ------------------------------------------------------------------------------------------------ (c) _pack_data on a symbolic byte array
def fam_pack(M):
    from vlib.symnp_ext import BVArray, Len, M_SYM
    goals = []; Fp = 'quantize_tensor._pack_data'; d = z3.Array('d', z3.IntSort(), z3.BitVecSort(8)); k = z3.Int('k'); H0 = [M_SYM >= 0]
    for bw, parity in itertools.product((1, 2, 3, 4), (0, 1)):
        n = 2 * M_SYM + parity; src = BVArray.source('d', Len(2, parity), np.uint8)
        tag = f'bitwidth{bw}.n-{"odd" if parity else "even"}'; inputs = dict(family='pack', bitwidth=bw, parity=parity)
        try: out = M.qt._pack_data(bw, src)
        except symnp.Undecided: raise
        except Exception as ex: out = ex                      # e.g. the real code's own broadcasting error for this parity
        rp = (lambda model, bw=bw, parity=parity: native_pack(M, bw, parity, model))
        ok = isinstance(out, BVArray) and out.dtype == np.dtype('uint8')
        g = G(f'{tag}.result-is-a-uint8-vector', Fp, ok=bool(ok), backend='cpython-exec', inputs=inputs, observed=repr(out), clause='for every uint8 vector of this parity the call returns a 1-D uint8 vector (no exception)')
        if not ok:                                            # a symbolic run is not a native input: look for one
            nr = native_pack(M, bw, parity, {}); g.ok = None; g.hyps = []; g.goal = z3.BoolVal(False); g.replay = (lambda model, nr=nr: nr)
        goals.append(g)
        if not ok: continue
        L = out.length.expr(); e = out.elem
        goals.append(G(f'{tag}.length-is-ceil(n/2)', Fp, H0, L == (n + 1) / 2, bv=True, replay=rp, inputs=inputs, clause='|result| == (n + 1) div 2'))
        goals.append(G(f'{tag}.low-nibble-is-element-2k', Fp, H0 + [0 <= k, k < L], (e(k) & 0x0F) == (z3.Select(d, 2 * k) & 0x0F), bv=True, replay=rp, inputs=inputs, clause='forall k < |result|: result[k] & 0x0F == d[2k] & 0x0F'))
        goals.append(G(f'{tag}.high-nibble-is-element-2k+1', Fp, H0 + [0 <= k, 2 * k + 1 < n], z3.LShR(e(k), 4) == (z3.Select(d, 2 * k + 1) & 0x0F), bv=True, replay=rp, inputs=inputs, clause='forall k with 2k+1 < n: result[k] >> 4 == d[2k+1] & 0x0F'))
        if parity: goals.append(G(f'{tag}.odd-tail-high-nibble-is-0', Fp, H0, z3.LShR(e(L - 1), 4) == 0, bv=True, replay=rp, inputs=inputs, clause='n odd => result[|result|-1] >> 4 == 0'))
    bad = []
    for bw in range(5, 65):
        o = object()
        if M.qt._pack_data(bw, o) is not o: bad.append(bw)
    goals.append(G('bitwidth5..64.returns-the-input-object', Fp, ok=not bad, inputs=dict(family='pack', bitwidths='5..64'), observed=bad, clause='bitwidth > 4 => result is flattened_data (no inspection of the data: an opaque object is returned unchanged), for every bitwidth 5..64'))
    return goals

def ref_pack(codes):
    """independent TFLite INT4 packing (element 2k in bits 0..3 of byte k, element 2k+1 in bits 4..7, zero padding)"""
    out = bytearray((len(codes) + 1) // 2)
    for i, c in enumerate(codes): out[i // 2] |= (int(c) & 0xF) << (4 * (i % 2))
    return bytes(out)
def ref_unpack(raw, n):
    vals = []
    for i in range(n):
        nib = (raw[i // 2] >> (4 * (i % 2))) & 0xF; vals.append(nib - 16 if nib >= 8 else nib)
    return vals

def native_pack(M, bw, parity, model):
    """the real _pack_data on concrete uint8 vectors of the given parity compared with the independent reference packing"""
    for m in (0, 1, 2, 5):
        n = 2 * m + parity
        for seed in range(3):
            d = ((np.arange(n) * (37 + 20 * seed) + 11 + seed) % 256).astype(np.uint8)
            try: got = bytes(np.asarray(M.qt._pack_data(bw, d)).astype(np.uint8))
            except Exception as e: return dict(confirmed=True, inputs=dict(bitwidth=bw, data=[int(v) for v in d]), observed=repr(e))
            if got != ref_pack(d): return dict(confirmed=True, inputs=dict(bitwidth=bw, data=[int(v) for v in d]), observed=dict(packed=list(got), expected=list(ref_pack(d))))
    return dict(confirmed=False, inputs=dict(model=model), observed='the counter-model did not reproduce natively')

# ------------------------------------------------------------------------------------------------ (d) quantize_tensor
TTYPE = {4: 17, 8: 9, 16: 7, 32: 2, 64: 4}           # TFLite schema TensorType: INT4 17, INT8 9, INT16 7, INT32 2, INT64 4 ; FLOAT16 1, FLOAT32 0
QT_SHAPES = [((3, 1), 'n3-odd'), ((3, 2), 'n6-even'), ((5,), 'n5-odd-1d'), ((1,), 'n1')]

def qt_case(M, bits, shape, own_buffer, has_data, per_channel, nonlinear=False):
    """one real tensor (float32, with its original constant) + neighbours, one TransformationInput; returns everything the checks need"""
    S = M.schema; qt = M.qtyping; tu = importlib.import_module('ai_edge_quantizer.transformations.transformation_utils')
    n = int(np.prod(shape)); lo, hi = (-8, 7) if bits <= 4 else (-100, 100)
    orig = (np.arange(n, dtype=np.float32) * 0.37 - 1.0).reshape(shape)
    bufs = [S.BufferT()]; bufs[0].data = None
    sg = S.SubGraphT(); sg.tensors = []; sg.operators = []; sg.inputs = np.array([], np.int32); sg.outputs = np.array([], np.int32)
    def add_tensor(name, data, buffer0=False):
        t = S.TensorT(); t.name = name; t.shape = np.array(data.shape, np.int32); t.type = 0; t.quantization = None
        if buffer0: t.buffer = 0
        else:
            b = S.BufferT(); b.data = np.frombuffer(data.tobytes(), dtype=np.uint8); bufs.append(b); t.buffer = len(bufs) - 1
        sg.tensors.append(t); return t
    other = add_tensor(b'other', np.array([1.0, 2.0, 3.0], np.float32)); T = add_tensor(b'T', orig, buffer0=not own_buffer); other2 = add_tensor(b'other2', np.array([4.0], np.float32))
    if nonlinear:
        qd = orig.astype(np.float16) if bits == 16 else orig.astype(np.float32)
        params = qt.NonLinearQuantParams(num_bits=bits, quantized_data=qd if has_data else None)
    else:
        codes = (((np.arange(n) * 5 + 3) % (hi - lo + 1)) + lo).astype(cc.int_dtype(bits)).reshape(shape)
        nch = shape[0] if per_channel else 1
        scale = (np.arange(nch, dtype=np.float32) + 1) * np.float32(0.013); zp = (np.arange(nch) - 1).astype(cc.int_dtype(bits))
        pshape = tuple(shape[0] if (per_channel and d == 0) else 1 for d in range(len(shape)))
        params = qt.UniformQuantParams(num_bits=bits, quantized_dimension=0 if per_channel else None, scale=scale.reshape(pshape), zero_point=zp.reshape(pshape), symmetric=False, quantized_data=codes if has_data else None)
    ti = tu.TransformationInput(tensor_id=1, op_codes=[], buffers=bufs, subgraph=sg, producer=-1, consumers=[], quant_params=params)
    return dict(ti=ti, T=T, sg=sg, bufs=bufs, params=params, orig=orig, others=(other, other2))

def snapshot(c):
    return dict(buf=[None if b.data is None else bytes(np.asarray(b.data).tobytes()) for b in c['bufs']], bufobj=[b.data for b in c['bufs']], nb=len(c['bufs']),
                tens=[(t.name, tuple(t.shape), t.type, t.buffer, t.quantization) for t in c['sg'].tensors], nt=len(c['sg'].tensors), nops=len(c['sg'].operators))

def fam_quantize_tensor(M):
    goals = []; Fq = 'quantize_tensor.quantize_tensor'; qt = M.qtyping
    table = [(bits, shp, lab, own, has, pc, False) for bits in (4, 8, 16, 32, 64) for shp, lab in QT_SHAPES for own in (True, False) for has in (True, False) for pc in (False, True) if not (pc and len(shp) == 1)]
    table += [(16, shp, lab, own, has, False, True) for shp, lab in QT_SHAPES for own in (True, False) for has in (True, False)] + [(32, (3, 2), 'n6-even', True, True, False, True)]
    for bits, shp, lab, own, has, pc, nonlin in table:
        tag = f'{"float" if nonlin else "int"}{bits}.{lab}.{"own-buffer" if own else "buffer0"}.{"data" if has else "no-data"}.{"per-channel" if pc else "per-tensor"}'
        inputs = dict(family='quantize_tensor', bits=bits, shape=shp, own_buffer=own, has_data=has, per_channel=pc, nonlinear=nonlin)
        c = qt_case(M, bits, shp, own, has, pc, nonlin); before = snapshot(c); p = c['params']; T = c['T']; n = int(np.prod(shp))
        calls = []; real = M.qt._pack_data
        def spy(bw, data):
            r = real(bw, data); calls.append((bw, data, r)); return r
        M.qt._pack_data = spy
        ret = None
        with cc.guarded(goals, tag, Fq, inputs):
            try: ret = M.qt.quantize_tensor(c['ti'])
            finally: M.qt._pack_data = real
        if ret is None: continue
        after = snapshot(c)
        # ---- buffer
        write = own and has; b = T.buffer
        if write:
            raw = np.frombuffer(p.quantized_data.tobytes(), dtype=np.uint8)
            okc = len(calls) == 1 and calls[0][0] == bits and isinstance(calls[0][1], np.ndarray) and calls[0][1].dtype == np.uint8 and calls[0][1].ndim == 1 and np.array_equal(calls[0][1], raw) and c['bufs'][b].data is calls[0][2]
            stored = bytes(np.asarray(c['bufs'][b].data).tobytes())
            want_len = (n + 1) // 2 if bits <= 4 and not nonlin else n * p.quantized_data.dtype.itemsize
            okb = len(stored) == want_len and (stored == ref_pack(p.quantized_data.reshape(-1)) and ref_unpack(stored, n) == [int(v) for v in p.quantized_data.reshape(-1)] if (bits <= 4 and not nonlin) else stored == p.quantized_data.tobytes())
            oko = all(after['buf'][i] == before['buf'][i] and after['bufobj'][i] is before['bufobj'][i] for i in range(before['nb']) if i != b)
            goals.append(G(f'{tag}.buffer-is-_pack_data(num_bits,bytes(quantized_data))', Fq, ok=bool(okc and okb and oko and after['nb'] == before['nb']), inputs=inputs, observed=dict(calls=len(calls), stored_len=len(stored), want_len=want_len),
                           clause='buffers[tensor.buffer].data is the object _pack_data(num_bits, uint8 view of quantized_data.tobytes()) returned; byte length == ceil(n/2) (<= 4 bit) / n*itemsize; decoding the nibbles gives the codes back; every other buffer untouched'))
        else:
            ok = not calls and after['buf'] == before['buf'] and all(a is b0 for a, b0 in zip(after['bufobj'], before['bufobj'])) and after['nb'] == before['nb']
            goals.append(G(f'{tag}.no-buffer-is-written', Fq, ok=bool(ok), inputs=inputs, observed=dict(calls=len(calls)), clause='tensor.buffer == 0 or quantized_data is None => no buffer changes (buffer 0 is the shared empty buffer)'))
        # ---- annotation
        qz = T.quantization
        if nonlin:
            ok = T.type == {16: 1, 32: 0}[bits] and qz is None
            goals.append(G(f'{tag}.type-is-FLOAT{bits}-and-no-quantization-record', Fq, ok=bool(ok), inputs=inputs, observed=dict(type=T.type), clause='non-linear parameters: tensor.type == FLOAT16 (16) / FLOAT32 (32); tensor.quantization untouched'))
        else:
            ws = np.asarray(p.scale).reshape(-1).astype(np.float32); wz = np.asarray(p.zero_point).reshape(-1).astype(np.int64)
            ok = (T.type == TTYPE[bits] and qz is not None and isinstance(qz.scale, list) and isinstance(qz.zeroPoint, list) and len(qz.scale) == len(qz.zeroPoint) == ws.size
                  and all(isinstance(v, np.float32) and v == w for v, w in zip(qz.scale, ws)) and all(isinstance(v, np.int64) and v == w for v, w in zip(qz.zeroPoint, wz))
                  and qz.quantizedDimension == (p.quantized_dimension if p.quantized_dimension is not None else 0) and (not pc or len(qz.scale) == shp[0]))
            goals.append(G(f'{tag}.type-scale-zeroPoint-quantizedDimension-written-from-the-parameters', Fq, ok=bool(ok), inputs=inputs,
                           observed=dict(type=T.type, scale=[float(v) for v in (qz.scale if qz is not None and qz.scale is not None else [])], zeroPoint=[int(v) for v in (qz.zeroPoint if qz is not None and qz.zeroPoint is not None else [])], qdim=getattr(qz, 'quantizedDimension', None)),
                           clause=f'tensor.type == {TTYPE[bits]} (INT{bits}); quantization.scale == flatten(scale) as float32, zeroPoint == flatten(zero_point) as int64, equal lengths (one, or the size of the quantized dimension); quantizedDimension written iff not None (else the schema default 0)'))
        # ---- frame and result
        t_after = after['tens']; t_before = before['tens']
        ok = (after['nt'] == before['nt'] and after['nops'] == before['nops'] and t_after[0] == t_before[0] and t_after[2] == t_before[2] and t_after[1][:2] == t_before[1][:2] and t_after[1][3] == t_before[1][3]
              and ret == qt.TransformationInfo(0, 0, 1))
        goals.append(G(f'{tag}.frame-and-result', Fq, ok=bool(ok), inputs=inputs, clause='other tensors, the tensor\'s name / shape / buffer index, operator list unchanged; returns TransformationInfo(0, 0, tensor_id)'))
    return goals

# ------------------------------------------------------------------------------------------------ (e) float16 casting
def fam_fp16(M):
    from vlib.symnp_ext import OpaqueArray
    goals = []; qt = M.qtyping
    made = {}
    def opaque_data(tensor, buffers):
        if buffers[tensor.buffer].data is None: return None
        made[id(tensor)] = OpaqueArray(tensor.name.decode()); return made[id(tensor)]
    Mx = cc.load_mods(M.mut, want=('fbu', 'fc'), proxies={cc.FBU: cc.proxy_of(M.fbu, get_tensor_data=opaque_data)})
    reg = cc.registry(Mx)['float_casting']
    missing = sorted({'FULLY_CONNECTED', 'CONV_2D', 'DEPTHWISE_CONV_2D', 'CONV_2D_TRANSPOSE', 'EMBEDDING_LOOKUP'} ^ set(reg))
    goals.append(G('registration.float_casting-ops', 'float_casting.materialize_fc_conv', ok=not missing, inputs=dict(family='fp16'), observed=missing, clause='float_casting is registered exactly for fc / conv / depthwise / transpose-conv / embedding lookup'))
    for opn, expl, has_bias in itertools.product(sorted(reg), (True, False), (True, False)):
        if opn == 'EMBEDDING_LOOKUP' and has_bias: continue
        Fm = 'float_casting.' + reg[opn].__name__
        m = mg.build(opn, bias=has_bias); cfg = qt.OpQuantizationConfig(weight_tensor_config=qt.TensorQuantizationConfig(16, dtype=qt.TensorDataType.FLOAT), compute_precision=qt.ComputePrecision.FLOAT, explicit_dequantize=expl)
        tag = f'{opn}.explicit_dequantize-{expl}.{"bias" if has_bias else "no-bias"}'; inputs = dict(family='fp16', op=opn, explicit_dequantize=expl, bias=has_bias)
        oi, gi = mg.infos(m, qt, cfg); res = None
        with cc.guarded(goals, tag, Fm, inputs): res = reg[opn](oi, gi, {})
        if res is None: continue
        rn = {r.tensor_name: r for r in res}; wname = m.names[m.weight]
        e = rn[wname].consumers[0]; p = e.parameters; X = made.get(id(m.tensors[m.weight]))
        ok = (isinstance(p, qt.NonLinearQuantParams) and p.num_bits == 16 and isinstance(p.quantized_data, OpaqueArray) and p.quantized_data._name == wname and p.quantized_data._casts == (np.dtype('float16'),)
              and p.data_type == qt.TensorDataType.FLOAT and e.transformations == [qt.QuantTransformation.ADD_DEQUANTIZE] and e.subgraph_op_id == 0 and len(rn[wname].consumers) == 1)
        goals.append(G(f'{tag}.stored-weight-is-content.astype(float16)', Fm, ok=bool(ok), backend='cpython-exec', inputs=inputs, observed=repr(getattr(p, 'quantized_data', None)),
                       clause='for every weight content: parameters == NonLinearQuantParams(num_bits=16, quantized_data=<the weight tensor\'s content>.astype(np.float16)) -- exactly one cast, nothing else touches the data; transformation [ADD_DEQUANTIZE]'))
        oth = [r for k, r in rn.items() if k != wname]
        ok = len(res) == len(rn) and all((r.producer or r.consumers[0]).parameters is None and (r.producer or r.consumers[0]).transformations == [qt.QuantTransformation.NO_QUANTIZE] for r in oth) \
             and set(rn) == {m.names[i] for i in ([m.op.inputs[0]] if opn != 'CONV_2D_TRANSPOSE' else [m.op.inputs[2]]) + [m.weight] + m.outs + ([m.bias] if has_bias else [])}
        goals.append(G(f'{tag}.every-other-tensor-stays-float', Fm, ok=bool(ok), backend='cpython-exec', inputs=inputs, clause='input / output / bias entries: NO_QUANTIZE, no parameters'))
    return goals

def f16_ref_bits(v):
    """IEEE binary16 bits of round-to-nearest-even(v) computed WITHOUT numpy (CPython's struct 'e' packs a double with RNE; float32 -> double is exact)"""
    v = float(v)
    try: return struct.unpack('<H', struct.pack('<e', v))[0]
    except OverflowError: return 0xFC00 if v < 0 else 0x7C00

def bounded(rep, M):
    # float16 rounding: numpy's astype(float16) against CPython's struct 'e' on boundary and regular values
    vals = [0.0, -0.0, 1.0, 1.0 + 2 ** -11, 1.0 + 3 * 2 ** -11, 1.0 + 2 ** -10, 65504.0, 65519.0, 65520.0, 1e6, -1e6, 2 ** -24, 2 ** -25, 1.5 * 2 ** -25, 2 ** -14, 6.1e-5, 0.1, -0.3, 3.14159, 1e-8, 123.456]
    vals += [float(np.float32(x)) for x in np.linspace(-70000, 70000, 2001)] + [float(np.float32(x)) for x in np.geomspace(1e-9, 1e5, 1500)]
    arr = np.array(vals, np.float32); got = arr.astype(np.float16).view(np.uint16); fails = sum(1 for a, g in zip(arr, got) if f16_ref_bits(a) != int(g))
    rep.add_bounded('numpy float32 -> float16 cast (round to nearest even, overflow to inf, subnormals)', 'ties, subnormal and overflow boundaries + 3500 regular values, compared bit for bit with CPython struct "e"', len(vals), fails)
    # end to end on the real code: statistics -> parameters -> quantize_tensor -> independent decode -> dequantize in binary64
    qt = M.qtyping; cases = f2 = 0; worst = 0.0
    for bits, sym, gran, shape in itertools.product((4, 8), (True, False), ('TENSORWISE', 'CHANNELWISE'), ((3, 5), (4, 3), (2, 1), (3, 1))):
        for seed in range(3):
            m = mg.build('FULLY_CONNECTED', bias=False, weight_shape=shape); data = (m.data[m.weight] * np.float32(0.31 + seed) + np.float32(seed - 1)).astype(np.float32)
            m.buffers[m.tensors[m.weight].buffer].data = np.frombuffer(data.tobytes(), dtype=np.uint8)
            wcfg = qt.TensorQuantizationConfig(bits, sym, qt.QuantGranularity(gran)); oi, gi = mg.infos(m, qt, qt.OpQuantizationConfig(weight_tensor_config=wcfg, compute_precision=qt.ComputePrecision.INTEGER))
            cases += 1
            try:
                st = M.utils.init_tensor_min_max(m.tensors[m.weight], gi, oi); p = M.utils._get_tensor_quant_params(oi, st, wcfg, tensor_content=data)
                tu = importlib.import_module('ai_edge_quantizer.transformations.transformation_utils'); sg = M.schema.SubGraphT(); sg.tensors = m.tensors; sg.operators = [m.op]
                M.qt.quantize_tensor(tu.TransformationInput(m.weight, [], m.buffers, sg, -1, [0], p))
            except Exception: f2 += 1; continue
            T = m.tensors[m.weight]; raw = bytes(np.asarray(m.buffers[T.buffer].data).tobytes()); n = data.size
            codes = np.array(ref_unpack(raw, n) if bits == 4 else list(np.frombuffer(raw, dtype=np.int8)), np.int64).reshape(shape)
            sc = np.array(T.quantization.scale, np.float64); zp = np.array(T.quantization.zeroPoint, np.int64)
            if sc.size > 1: sc = sc.reshape(-1, 1); zp = zp.reshape(-1, 1)
            err = np.abs((codes - zp) * sc - data.astype(np.float64)) / sc; worst = max(worst, float(err.max()))
            if len(raw) != ((n + 1) // 2 if bits == 4 else n) or err.max() > (0.5 if sym else 1.0) * (1 + 1e-3) + 1e-3: f2 += 1
    rep.add_bounded('init_tensor_min_max -> _get_tensor_quant_params -> quantize_tensor -> independent decode (binary32 arithmetic of the real code)', f'4/8 bit x sym/asym x per-tensor/per-channel x 4 shapes (odd and even sizes) x 3 contents; worst error {worst:.4f} steps', cases, f2)
    return fails + f2

# ------------------------------------------------------------------------------------------------ canaries
CANARIES = [
    ('_pack_data: [::2] and [1::2] swapped', cc.QT, [('flattened_data[::2] & 0x0F', 'flattened_data[1::2] & 0x0F'), ('np.left_shift(flattened_data[1::2], 4)', 'np.left_shift(flattened_data[::2], 4)')], 'pack', ['bitwidth4.n-even.low-nibble-is-element-2k', 'bitwidth4.n-even.high-nibble-is-element-2k+1']),
    ('_pack_data: & 0x0F dropped', cc.QT, [('flattened_data[::2] & 0x0F', 'flattened_data[::2]')], 'pack', ['bitwidth4.n-odd.high-nibble-is-element-2k+1']),
    ('_pack_data: odd tail padded with 0xFF', cc.QT, [('constant_values=0', 'constant_values=255')], 'pack', ['bitwidth4.n-odd.odd-tail-high-nibble-is-0']),
    ('_pack_data: bitwidth <= 4 -> bitwidth < 4', cc.QT, [('  if bitwidth <= 4:\n    even_data', '  if bitwidth < 4:\n    even_data')], 'pack', ['bitwidth4.n-even.length-is-ceil(n/2)', 'bitwidth4.n-even.result-is-a-uint8-vector']),
    ('_pack_data: left_shift by 3', cc.QT, [('flattened_data[1::2], 4)', 'flattened_data[1::2], 3)')], 'pack', ['bitwidth4.n-even.high-nibble-is-element-2k+1']),
    ('quantize_tensor: buffer 0 overwritten (if tensor.buffer dropped)', cc.QT, [('  if tensor.buffer:\n', '  if True:\n')], 'quantize_tensor', ['int8.n6-even.buffer0.data.per-tensor.no-buffer-is-written']),
    ('quantize_tensor: zeroPoint stored as int32', cc.QT, [('zero_point.flatten().astype(np.int64)', 'zero_point.flatten().astype(np.int32)')], 'quantize_tensor', ['int8.n6-even.own-buffer.data.per-channel.type-scale-zeroPoint-quantizedDimension-written-from-the-parameters']),
    ('quantize_tensor: packs with bitwidth 8 always', cc.QT, [('_pack_data(\n          transformation_input.quant_params.num_bits,', '_pack_data(\n          8,')], 'quantize_tensor', ['int4.n3-odd.own-buffer.data.per-tensor.buffer-is-_pack_data(num_bits,bytes(quantized_data))']),
    ('_round_and_clip: qmin + 1 -> qmin (bias no longer narrow)', cc.UQ, [('          qmin + 1,', '          qmin,')], 'bias', ['in8.result-is-clip(rint(bias/scale),qmin+1,qmax)', 'in8.result-in-narrow-range']),
    ('symmetric_quantize_bias_tensor: bias quantized with twice the returned scale', cc.UQ, [('scale=effective_output_scale,', 'scale=effective_output_scale * 2,')], 'bias', ['in8.pre-rounding-value-is-bias/scale']),
    ('float_casting.materialize_fc_conv: .astype(np.float16) dropped', cc.FC, [('num_bits=16, quantized_data=weight_content.astype(np.float16)', 'num_bits=16, quantized_data=weight_content')], 'fp16', ['FULLY_CONNECTED.explicit_dequantize-True.bias.stored-weight-is-content.astype(float16)']),
    ('_get_tensor_quant_params: content quantized with other parameters than those returned', cc.UTILS, [('        tensor_content, quant_params\n    )', '        tensor_content, qtyping.UniformQuantParams(scale=scale * 2, zero_point=zp, num_bits=tensor_quant_config.num_bits, symmetric=tensor_quant_config.symmetric, quantized_dimension=quantized_dim)\n    )')], 'params', ['b8.sym.channelwise.constant.stored-data-is-uniform_quantize(content,returned-params)']),
]

FAMILIES = ('lemmas', 'bias', 'params', 'pack', 'quantize_tensor', 'fp16')
def families(M, only=None):
    fam = {'lemmas': lambda: fam_lemmas(M), 'bias': lambda: [g for g in cc.fam_bias(M) if 'C05' in g.props],
           'params': lambda: [g for g in cc.fam_params(M, [c for c in cc.PARAM_CONFIGS if c[3]]) if 'C05' in g.props],
           'pack': lambda: fam_pack(M), 'quantize_tensor': lambda: fam_quantize_tensor(M), 'fp16': lambda: fam_fp16(M)}
    out = []
    for k in FAMILIES:
        if only is None or k in only:
            gl = fam[k]()
            for g in gl: g.family = k
            out += gl
    return out

def saturation_note(rep, M):
    """outside the property ("unless that value saturates the bias type") but worth a line in the evidence: 64-bit bias, upper saturation"""
    qt = M.qtyping
    pin = qt.UniformQuantParams(16, None, np.array([[1e-4 / 32767]], np.float32), np.zeros((1, 1), np.int32), True); pw = qt.UniformQuantParams(8, None, np.array([[1e-4 / 127]], np.float32), np.zeros((1, 1), np.int32), True)
    with np.errstate(all='ignore'):
        import warnings
        with warnings.catch_warnings():
            warnings.simplefilter('ignore'); p = M.uq.symmetric_quantize_bias_tensor(np.array([30000.0], np.float32), pin, pw)
    q = int(p.quantized_data[0])
    rep.extra['observation_int64_bias_saturation'] = dict(inputs=dict(bias=30000.0, input_scale=float(pin.scale[0, 0]), weight_scale=float(pw.scale[0, 0]), input_num_bits=16), quantized=q, dequantized=q * float(p.scale[0]),
        text='float(2**63 - 1) == 2.0**63, so np.clip does not protect the int64 cast at the upper end: a bias with rint(bias/scale) >= 2**63 is stored as INT64_MIN (sign flips) instead of INT64_MAX. '
             'The property exempts saturating values, so this is recorded as an observation, not a violation; the 64-bit cast obligation is stated for rint(bias/scale) <= 2**63-1.')
    if q < 0: rep.notes.append(f'observation (outside C05 as stated): 16-bit activations, bias=30000, scale={float(p.scale[0]):.3e}: rint(bias/scale) >= 2**63 is stored as {q} (INT64_MIN), dequantizes to {q * float(p.scale[0]):.1f}')

def run(rep):
    M = cc.load_mods(); fns = {k: rep.fn(core.Fn(rel, q)) for k, (rel, q) in FNS.items()}
    rep.trust('numpy elementwise operations = pointwise lifting on the promoted dtype; np.rint within 1/2, monotone, identity on integers; np.clip = min(max(.))')
    rep.trust('uint8 & int, np.left_shift(uint8, int), .astype(uint8), np.bitwise_or(uint8, uint8) are the 8-bit machine operations (result dtypes taken from numpy itself); a[::2] / a[1::2] select the even / odd positions; np.pad(a, (0, 1), constant_values=c) appends c')
    rep.trust('ndarray.tobytes / np.frombuffer(dtype=uint8) expose the little-endian two\'s-complement bytes of the array in C order')
    rep.trust('ndarray.astype(np.float16) rounds to nearest even (IEEE 754 binary16), overflow to inf: numpy semantics, compared with CPython struct "e" in a bounded stand-in only')
    rep.trust('C17 (cited, not redone): uniform_quantize == clip(rint(x*(1/s) + zp), qmin [+1 when symmetric], qmax) with an exact cast, for arbitrary valid parameters and 4/8/16 bits; uniform_dequantize == (q - zp)*s; '
              'tensor_zp_scale_from_min_max == the reference parameters; fix_quantization_params_rank puts the channel axis at quantized_dimension and 1 elsewhere. '
              'C04 (cited): statistics of a constant are np.min / np.max of its content over the complement of the quantized dimension (so mn <= x <= mx for every element x of the slice)')
    rep.assume('float32/float64 arithmetic treated as real arithmetic in the decoding-error lemma and in the bias goals (x*(1/s) vs x/s, products of scales); the binary32 behaviour of the real code is sampled in a bounded stand-in')
    rep.assume('a bias whose rint(bias/scale) exceeds 2**63-1 (64-bit bias, 16-bit activations) is outside the cast obligation: the property exempts saturating values; see observation_int64_bias_saturation in the evidence')
    rep.assume('BLOCKWISE (emulated sub-channel) quantization and its transposed storage are outside the property text and not under contract')
    try:
        goals = families(M)
    except symnp.Undecided as e:
        rep.errors.append(f'front end could not follow the code: {e}'); return
    res = cc.discharge(goals); cc.register(rep, 'C05', fns, goals, res)
    base = {g.id: r[0] for g, r in zip(goals, res)}
    fails = bounded(rep, M); saturation_note(rep, M)
    if fails and all(v == 'proved' for v in base.values()): rep.errors.append('bounded stand-in disagrees with the proved obligations')
    # covers
    s = z3.Solver(); mn, mx, x = z3.Reals('mn mx x'); Q = z3.Int('Q'); s.add(mn <= x, x <= mx, mn < 0, mx > 0, Q >= 7); rep.cover('lemmas.preconditions', s.check() == z3.sat)
    from vlib.symnp_ext import M_SYM
    s = z3.Solver(); k = z3.Int('k'); s.add(M_SYM >= 0, 0 <= k, 2 * k + 1 < 2 * M_SYM + 1); rep.cover('pack.index-preconditions', s.check() == z3.sat)
    s = z3.Solver(); si, sw = z3.Reals('si sw'); s.add(si > 0, sw > 0); rep.cover('bias.scales-positive', s.check() == z3.sat)
    for kf in FAMILIES: rep.cover(f'family.{kf}.non-empty', any(g.family == kf for g in goals))
    rep.extra['obligations_per_family'] = {kf: sum(1 for g in goals if g.family == kf) for kf in FAMILIES}
    Mi = cc.load_mods({cc.QT: core.read_source(cc.QT), cc.FC: core.read_source(cc.FC), cc.UQ: core.read_source(cc.UQ)})
    gi = families(Mi, only=['pack', 'quantize_tensor', 'fp16', 'bias']); ri = cc.discharge(gi, parallel=False)
    rep.cover('mutant-loader.identity-mutation-reproduces-all-verdicts', all(r[0] == base.get(g.id) for g, r in zip(gi, ri)) and len(gi) > 100)
    for name, rel, subs, fam, expect in CANARIES:
        src = core.read_source(rel); stale = [a for a, b in subs if a not in src]
        if stale: rep.canary(name, False, f'mutation site not found (stale canary): {stale[0][:40]}'); continue
        for a, b in subs: src = src.replace(a, b, 1)
        try:
            Mm = cc.load_mods({rel: src}); gl = [g for g in families(Mm, only=[fam]) if g.id in expect]
        except Exception as e:
            rep.canary(name, True, f'mutant rejected while executing: {type(e).__name__}: {e}'); continue
        missing = [e for e in expect if e not in {g.id for g in gl}]
        if missing and len(missing) == len(expect): rep.canary(name, False, f'expected obligations not generated: {missing}'); continue
        rs = cc.discharge(gl, parallel=False)
        rep.canary(name, any(r[0] != 'proved' for r in rs) and all(base.get(g.id) == 'proved' for g in gl), str([(g.id, r[0]) for g, r in zip(gl, rs)]))

def replay(payload):
    M = cc.load_mods(); inp = payload.get('inputs') or {}; oid = payload.get('obligation', ''); fam = inp.get('family')
    print('replaying', oid, inp)
    if fam == 'bias':
        rp = cc.native_bias(M, inp, {k: str(fractions.Fraction(inp[v])) for k, v in (('si', 'input_scale'), ('sw', 'weight_scale'), ('b', 'bias')) if v in inp}); print(rp); return 1 if rp['confirmed'] else 0
    if fam == 'params':
        rp = cc.native_params(M, inp, {'mn': str(fractions.Fraction(inp.get('min', 0.0))), 'mx': str(fractions.Fraction(inp.get('max', 0.0)))}); print(rp); return 1 if rp['confirmed'] else 0
    if fam == 'pack' and 'data' in inp:
        d = np.array(inp['data'], np.uint8); got = bytes(np.asarray(M.qt._pack_data(inp.get('bitwidth', 4), d)).astype(np.uint8)); print(dict(packed=list(got), expected=list(ref_pack(d)))); return 1 if got != ref_pack(d) else 0
    goals = [g for g in families(M, only=[fam] if fam in FAMILIES else None) if oid.endswith('/' + g.id)]
    res = cc.discharge(goals, parallel=False)
    for g, r in zip(goals, res): print(g.id, r[0], g.observed)
    return 1 if any(r[0] != 'proved' for r in res) else 0
