"""C17 — quantization arithmetic obeys its algebraic laws on all inputs.

Functions under contract (all of uniform_quantize_tensor.py except the emulated-subchannel function):
  get_quantized_range, _round_and_clip, assign_quantized_type, fix_quantization_params_rank, uniform_quantize,
  uniform_dequantize, tensor_zp_scale_from_min_max, _is_valid_quantization_params.
Front end: CPython executes the real functions on symbolic arrays (vlib/symnp.py); obligations are QF nonlinear real /
integer formulas discharged by z3 then cvc5.  Laws are the property text's, written here, not read from the code."""
import importlib, itertools, time, types, sys, os, fractions
import numpy as np, z3
from vlib import core, symnp
from vlib.symnp import SymArray

REL = 'algorithms/uniform_quantize/uniform_quantize_tensor.py'
FNS = ['get_quantized_range', '_round_and_clip', 'assign_quantized_type', 'fix_quantization_params_rank', 'uniform_quantize',
       'uniform_dequantize', 'tensor_zp_scale_from_min_max', '_is_valid_quantization_params']
BITS = (4, 8, 16)
R = z3.RealVal
def ab(t): return z3.If(t >= 0, t, -t)

def load_module(src_override=None):
    core.stub_package()
    if src_override is None:
        return importlib.import_module('ai_edge_quantizer.algorithms.uniform_quantize.uniform_quantize_tensor')
    m = types.ModuleType('uqt_mutant'); m.__file__ = os.path.join(core.PKG, REL)
    sys.modules['uqt_mutant'] = m            # dataclasses resolves cls.__module__ through sys.modules
    exec(compile(src_override, m.__file__, 'exec'), m.__dict__); return m

class G:
    """one goal: id, carrier function, hypotheses, goal, the symbolic inputs (for replay) and the native law to replay"""
    def __init__(self, gid, fn, hyps, goal, law=None, cfg=None, backend_hint=''):
        self.id, self.fn, self.hyps, self.goal, self.law, self.cfg = gid, fn, hyps, goal, law, cfg or {}

def expected_int_dtype(bits): return np.dtype('int8') if bits <= 8 else np.dtype('int16')

def clipz(t, lo, hi): return z3.If(t < lo, z3.RealVal(lo), z3.If(t > hi, z3.RealVal(hi), t))
DIV, RINT = symnp.DIV, symnp.RINT
def clipi(r, lo, hi): return z3.If(r < lo, lo, z3.If(r > hi, hi, r))

def generate(uq, qtyping, only=None):
    """runs the real functions symbolically and returns the list of goals.
    Modular structure: (A) tensor_zp_scale_from_min_max against the reference formulas and the parameter laws;
    (B) uniform_quantize against quant_ref for ARBITRARY valid parameters; (C) uniform_dequantize against dequant_ref for the
    dtype pairs the library produces; (D) the laws of the property as lemmas over the reference functions only, for an
    arbitrary integer range (every bit width at once)."""
    goals = []
    mn, mx, x, x2 = z3.Reals('mn mx x x2'); c = z3.Int('c')
    for bits, sym in itertools.product(BITS, (True, False)):
        tag = f'b{bits}.{"sym" if sym else "asym"}'
        qmin, qmax = -(2 ** (bits - 1)), 2 ** (bits - 1) - 1
        lo = qmin + (1 if sym else 0)
        cfg = dict(bits=bits, sym=sym)
        pre = [mn <= mx]
        dt = expected_int_dtype(bits)
        # ---------------- (A) parameters from a range
        with symnp.session() as cx:
            zp, scale = uq.tensor_zp_scale_from_min_max(SymArray(mn, np.float32, (1,)), SymArray(mx, np.float32, (1,)), bits, sym)
            H = pre + cx.hyps(); F = 'tensor_zp_scale_from_min_max'
            for k, (lab, g) in enumerate(cx.side): goals.append(G(f'params.{tag}.side{k}.{lab}', F, H, g, 'params', cfg))
            s_t, zp_t = scale.term, zp.term; zr = z3.ToReal(zp_t)
            goals.append(G(f'params.{tag}.scale-positive', F, H, s_t > 0, 'params', cfg))
            goals.append(G(f'params.{tag}.zp-in-range', F, H, z3.And(zp_t >= qmin, zp_t <= qmax), 'params', cfg))
            goals.append(G(f'params.{tag}.dtypes-and-shapes', F, [], z3.BoolVal(zp.dtype == dt and scale.dtype == np.dtype('float32') and zp.shape == scale.shape == (1,)), 'params', cfg))
            if sym: goals.append(G(f'params.{tag}.zp-zero', F, H, zp_t == 0, 'params', cfg))
            goals.append(G(f'params.{tag}.coverage-low', F, H, (lo - zr) * s_t <= mn + s_t / 2, 'params', cfg))
            goals.append(G(f'params.{tag}.coverage-high', F, H, (qmax - zr) * s_t >= mx - s_t / 2, 'params', cfg))
            # reference formula (TFLite quantization spec), written independently of the code; 1e-4 is the binary64 literal
            lit = R(str(fractions.Fraction(1e-4)))
            if sym:
                B2 = z3.If(ab(mn) >= ab(mx), ab(mn), ab(mx)); B2 = z3.If(B2 >= lit, B2, lit); ref = B2 / qmax
                goals.append(G(f'params.{tag}.scale-equals-reference', F, H, s_t == ref, 'params', cfg))
            else:
                bmax = z3.If(mx > 0, mx, 0); bmin = z3.If(mn < 0, mn, 0)
                rng2 = z3.If(bmax - bmin >= lit, bmax - bmin, lit); ref = rng2 / (qmax - qmin)
                goals.append(G(f'params.{tag}.scale-equals-reference', F, H, s_t == ref, 'params', cfg))
                zref = RINT(qmin - DIV(bmin, ref))
                goals.append(G(f'params.{tag}.zp-equals-reference', F, H + symnp.rint_facts(qmin - DIV(bmin, ref), cx.rints) + [symnp.div_fact(bmin, ref)], zp_t == zref, 'params', cfg))
        # ---------------- (B) uniform_quantize with ARBITRARY valid parameters (scale > 0, zero point of the library dtype)
        with symnp.session() as cx:
            s_a = z3.Real('s'); z_a = z3.Int('zp'); F = 'uniform_quantize'
            p_any = qtyping.UniformQuantParams(num_bits=bits, quantized_dimension=None, scale=SymArray(s_a, np.float32, (1,)),
                                               zero_point=SymArray(z_a, dt, (1,)), symmetric=sym)
            qa = uq.uniform_quantize(SymArray(x, np.float32, (1,)), p_any)
            valid = [s_a > 0, z_a >= qmin, z_a <= qmax]
            Ha = valid + cx.hyps()
            for k, (lab, g) in enumerate(cx.side): goals.append(G(f'quantize.{tag}.side{k}.{lab}', F, Ha, g, None, cfg))
            if len(cx.rints) != 1: raise symnp.Undecided('uniform_quantize no longer rounds exactly once')
            y_code = cx.rints[0]; y_ref = DIV(x, s_a) + z3.ToReal(z_a)
            goals.append(G(f'quantize.{tag}.pre-rounding-value-is-x/scale+zp', F, Ha + [symnp.div_fact(x, s_a)], y_code == y_ref, 'quantize', cfg))
            goals.append(G(f'quantize.{tag}.result-is-clip-rint', '_round_and_clip', Ha, qa.term == z3.ToInt(clipz(z3.ToReal(RINT(y_code)), lo, qmax)), 'quantize', cfg))
            goals.append(G(f'quantize.{tag}.result-in-range', '_round_and_clip', Ha, z3.And(qa.term >= lo, qa.term <= qmax), 'quantize', cfg))
            goals.append(G(f'quantize.{tag}.result-dtype', 'assign_quantized_type', [], z3.BoolVal(qa.dtype == dt and qa.shape == (1,)), 'quantize', cfg))
            qb = uq.uniform_quantize(SymArray(x2, np.float32, (1,)), p_any)
            goals.append(G(f'quantize.{tag}.monotone', F, valid + [x <= x2] + cx.hyps(), qa.term <= qb.term, 'monotone', cfg))
        # ---------------- (C) uniform_dequantize == (q - zp) * scale in Z then R, for the dtype pairs that occur
        for zdt in (dt, np.dtype('int32')):       # zero point as produced by the library (same narrow dtype) / as read back from the interpreter (int32)
            with symnp.session() as cx:
                s_a = z3.Real('s'); z_a = z3.Int('zp'); F = 'uniform_dequantize'
                p_any = qtyping.UniformQuantParams(num_bits=bits, quantized_dimension=None, scale=SymArray(s_a, np.float32, (1,)),
                                                   zero_point=SymArray(z_a, zdt, (1,)), symmetric=sym)
                dq = uq.uniform_dequantize(SymArray(c, dt, (1,)), p_any)
                symz = [z_a == 0] if sym else []          # the library's symmetric parameters always have zero point 0 (proved under params.*.zp-zero)
                goals.append(G(f'dequantize.{tag}.zp-{zdt}.result-is-(q-zp)*scale', F, [s_a > 0, z_a >= qmin, z_a <= qmax, c >= lo, c <= qmax] + symz + cx.hyps(),
                               dq.term == (z3.ToReal(c) - z3.ToReal(z_a)) * s_a, 'codes', dict(cfg, zdt=str(zdt))))
                goals.append(G(f'dequantize.{tag}.zp-{zdt}.zero-exactly-representable', F, [s_a > 0, z_a >= qmin, z_a <= qmax, c == z_a] + cx.hyps(), dq.term == 0, 'codes', dict(cfg, zdt=str(zdt))))
    # ---------------- (D) laws over the reference functions, arbitrary range lo <= qmax (no code involved)
    s_, y, d = z3.Reals('s y d'); zp_, lo_, hi_, r_ = z3.Ints('zp lo hi r')
    zr = z3.ToReal(zp_); base = [s_ > 0, lo_ <= hi_]
    yq = DIV(x, s_) + zr; rq = RINT(yq); rr = z3.ToReal(rq)
    qdef = z3.If(rr < z3.ToReal(lo_), lo_, z3.If(rr > z3.ToReal(hi_), hi_, rq))
    facts_q = [symnp.div_fact(x, s_)] + symnp.rint_facts(yq)
    inr = [(z3.ToReal(lo_) - zr) * s_ <= x, x <= (z3.ToReal(hi_) - zr) * s_]
    L1 = (yq - zr) * s_ == x
    L2 = z3.And(z3.ToReal(lo_) <= yq, yq <= z3.ToReal(hi_))
    L3 = z3.And(lo_ <= rq, rq <= hi_)
    L5 = z3.And((rr - zr) * s_ - x <= s_ / 2, x - (rr - zr) * s_ <= s_ / 2)
    law = 'law'
    goals += [G('law.roundtrip.L1-(y-zp)*s==x', None, base + [symnp.div_fact(x, s_)], L1),
              G('law.roundtrip.L2-y-in-range', None, base + [L1] + inr, L2),
              G('law.roundtrip.L3-rint-in-range', None, base + [L2] + symnp.rint_facts(yq)[:1], L3),
              G('law.roundtrip.L4-clip-is-identity', None, base + [L3], qdef == rq),
              G('law.roundtrip.L5-error-at-most-half-step', None, base + [L1] + symnp.rint_facts(yq)[:1], L5),
              G('law.roundtrip.conclusion', None, base + [qdef == rq, L5], z3.And((z3.ToReal(qdef) - zr) * s_ - x <= s_ / 2, x - (z3.ToReal(qdef) - zr) * s_ <= s_ / 2))]
    # code identity: quant_ref(dequant_ref(c)) == c
    dc = (z3.ToReal(c) - zr) * s_; yc = DIV(dc, s_) + zr; rc = RINT(yc)
    goals += [G('law.codes.M1-pre-rounding-value-is-c', None, base + [symnp.div_fact(dc, s_)], yc == z3.ToReal(c)),
              G('law.codes.M2-rint-of-integer', None, base + [yc == z3.ToReal(c)] + symnp.rint_facts(yc), rc == c),
              G('law.codes.M3-clip-identity', None, base + [rc == c, lo_ <= c, c <= hi_], z3.If(z3.ToReal(rc) < z3.ToReal(lo_), lo_, z3.If(z3.ToReal(rc) > z3.ToReal(hi_), hi_, rc)) == c)]
    # monotone and in range for any parameters
    y1 = DIV(x, s_) + zr; y2 = DIV(x2, s_) + zr
    goals += [G('law.monotone.N1-y-monotone', None, base + [x <= x2, symnp.div_fact(x, s_), symnp.div_fact(x2, s_)], y1 <= y2),
              G('law.monotone.N2-rint-clip-monotone', None, base + [y1 <= y2] + symnp.rint_facts(y1) + symnp.rint_facts(y2, [y1]),
                clipi(RINT(y1), lo_, hi_) <= clipi(RINT(y2), lo_, hi_))]
    # ---------------- get_quantized_range: exact
    for bits in (4, 8, 16, 32, 64):
        r = uq.get_quantized_range(uq.IntType(bits, True))
        goals.append(G(f'range.b{bits}', 'get_quantized_range', [], z3.BoolVal(r == (float(-(2 ** (bits - 1))), float(2 ** (bits - 1) - 1)) and all(isinstance(v, float) for v in r)), None, {}))
    # ---------------- per-channel locality: the rank fix-up puts the channel axis at quantized_dimension and 1 elsewhere
    dims = (2, 3, 5, 7)
    for rank in range(1, 5):
        shape = dims[:rank]
        for qd in range(rank):
            with symnp.session() as cx:
                sc = SymArray(z3.Real('s'), np.float32, (shape[qd],)); zp = SymArray(z3.Int('z'), np.int8, (shape[qd],))
                p = qtyping.UniformQuantParams(num_bits=8, quantized_dimension=qd, scale=sc, zero_point=zp, symmetric=True)
                data = SymArray(z3.Real('x'), np.float32, shape)
                fixed = uq.fix_quantization_params_rank(data, p)
                want = tuple(shape[qd] if d_ == qd else 1 for d_ in range(rank))
                ok = fixed.scale.shape == want and fixed.zero_point.shape == want and fixed.num_bits == 8 and fixed.symmetric is True and fixed.quantized_dimension == qd
                goals.append(G(f'locality.rank{rank}.qdim{qd}.fixup-shape', 'fix_quantization_params_rank', [], z3.BoolVal(bool(ok)), None, dict(rank=rank, qd=qd)))
                qq = uq.uniform_quantize(data, p)
                goals.append(G(f'locality.rank{rank}.qdim{qd}.quantize-shape', 'uniform_quantize', [], z3.BoolVal(qq.shape == shape and qq.dtype == np.dtype('int8')), None, dict(rank=rank, qd=qd)))
                dd = uq.uniform_dequantize(SymArray(z3.Int('q'), np.int8, shape), p)
                goals.append(G(f'locality.rank{rank}.qdim{qd}.dequantize-shape', 'uniform_dequantize', [], z3.BoolVal(dd.shape == shape), None, dict(rank=rank, qd=qd)))
        with symnp.session() as cx:       # per-tensor parameters already of the tensor's rank are returned unchanged
            p = qtyping.UniformQuantParams(num_bits=8, quantized_dimension=None, scale=SymArray(z3.Real('s'), np.float32, (1,) * rank), zero_point=SymArray(z3.Int('z'), np.int8, (1,) * rank), symmetric=True)
            fixed = uq.fix_quantization_params_rank(SymArray(z3.Real('x'), np.float32, shape), p)
            goals.append(G(f'locality.rank{rank}.per-tensor.unchanged', 'fix_quantization_params_rank', [], z3.BoolVal(fixed is p), None, dict(rank=rank)))
    return goals

def fp_goals(uq):
    """finiteness and sign of the scale in IEEE binary32 on the real expression DAG"""
    out = []
    for bits, sym in itertools.product(BITS, (True, False)):
        tag = f'b{bits}.{"sym" if sym else "asym"}'
        F = z3.Float32(); mn, mx = z3.FP('mn', F), z3.FP('mx', F)
        fin = lambda t: z3.And(z3.Not(z3.fpIsInf(t)), z3.Not(z3.fpIsNaN(t)))
        with symnp.session(fp=True) as cx:
            zp, scale = uq.tensor_zp_scale_from_min_max(SymArray(mn, np.float32, (1,)), SymArray(mx, np.float32, (1,)), bits, sym)
            s32 = symnp.fp_cast(scale.term, np.float32)
            out.append(G(f'fp32.{tag}.scale-finite-positive', 'tensor_zp_scale_from_min_max', [fin(mn), fin(mx), z3.fpLEQ(mn, mx)],
                         z3.And(fin(s32), z3.fpGT(s32, z3.FPVal(0.0, F))), 'fp32', dict(bits=bits, sym=sym)))
    return out

GOALS = []
def _discharge(i):
    g = GOALS[i]
    try:
        if g.law == 'fp32':
            s = z3.Solver(); s.set('timeout', 120000); s.add(*g.hyps); s.add(z3.Not(g.goal)); t0 = time.time(); r = s.check(); dt = time.time() - t0
            if r == z3.unsat: return ('proved', dt, 'z3-fp32', None)
            if r == z3.sat:
                m = s.model(); vals = {}
                for d in m.decls():
                    v = m[d]
                    try: vals[str(d)] = float(eval(str(z3.simplify(z3.fpToReal(v))).replace('?', ''))) if z3.is_fp(v) else str(v)
                    except Exception: vals[str(d)] = str(v)
                return ('refuted', dt, 'z3-fp32', vals)
            return ('unknown', dt, 'z3-fp32', None)
        if z3.is_true(z3.simplify(g.goal)) and not g.hyps: return ('proved', 0.0, 'cpython-exec', None)
        if z3.is_false(z3.simplify(g.goal)) and not g.hyps: return ('refuted', 0.0, 'cpython-exec', {})
        return symnp.prove(g.hyps, g.goal)
    except Exception as e:
        return ('error', 0.0, 'engine', repr(e))

# ------------------------------------------------------------------------------------------------ native replay
def f32(fr): return np.float32(float(fr))
def native_law(uq, qtyping, law, cfg, model):
    """Replays a counter-model on the real code with real numpy arrays.  Returns dict(confirmed, inputs, observed)."""
    bits, sym = cfg.get('bits'), cfg.get('sym')
    qmin, qmax = -(2 ** (bits - 1)), 2 ** (bits - 1) - 1; lo = qmin + (1 if sym else 0)
    mv = lambda k, d=0: symnp.model_value(model or {}, k) if model and symnp.model_value(model, k) is not None else fractions.Fraction(d)
    if law == 'fp32':
        mn, mx = np.float32(model.get('mn', 0.0)), np.float32(model.get('mx', 0.0))
        with np.errstate(all='ignore'):
            zp, scale = uq.tensor_zp_scale_from_min_max(np.array([mn], np.float32), np.array([mx], np.float32), bits, sym)
        bad = not (np.all(np.isfinite(scale)) and np.all(scale > 0))
        return dict(confirmed=bool(bad), inputs=dict(min=float(mn), max=float(mx), num_bits=bits, symmetric=sym), observed=dict(scale=[float(v) for v in np.ravel(scale)]))
    mn, mx = f32(mv('mn')), f32(mv('mx'))
    if mn > mx: mn, mx = mx, mn
    cands = [(mn, mx), (np.float32(-1.0), np.float32(1.0)), (np.float32(0.0), np.float32(2.0)), (np.float32(-2.0), np.float32(0.0)), (np.float32(-0.015625), np.float32(1.9453125))]
    for (a, b) in cands:
        zp, scale = uq.tensor_zp_scale_from_min_max(np.array([a], np.float32), np.array([b], np.float32), bits, sym)
        p = qtyping.UniformQuantParams(num_bits=bits, quantized_dimension=None, scale=scale, zero_point=zp, symmetric=sym)
        s = float(scale[0]); z = int(zp[0])
        ftol = 8 * float(np.finfo(np.float32).eps) * max(abs(float(a)), abs(float(b)), (qmax - lo) * s)          # the real code computes in binary32: its rounding is not a violation of a law stated over the reals
        inputs = dict(min=float(a), max=float(b), num_bits=bits, symmetric=sym, zero_point=z, scale=s)
        if law == 'params':
            ok = s > 0 and np.isfinite(s) and qmin <= z <= qmax and (z == 0 or not sym) and (lo - z) * s <= float(a) + s / 2 + 1e-6 * s + ftol and (qmax - z) * s >= float(b) - s / 2 - 1e-6 * s - ftol \
                 and float(uq.uniform_dequantize(np.array([z], zp.dtype), p)[0]) == 0.0
            if not ok: return dict(confirmed=True, inputs=inputs, observed='parameter law violated')
        if law in ('codes', 'roundtrip', 'quantize', 'monotone'):
            codes = np.arange(lo, qmax + 1).astype(zp.dtype)
            dq = uq.uniform_dequantize(codes, p)
            exact = (codes.astype(np.int64) - z) * np.float64(s)
            if law == 'codes':
                back = uq.uniform_quantize(dq.astype(np.float32), p)
                badi = np.nonzero((back.astype(np.int64) != codes.astype(np.int64)) | (np.abs(dq - exact) > 1e-3 * abs(s)))[0]
                if len(badi):
                    k = int(badi[0]); return dict(confirmed=True, inputs=dict(inputs, code=int(codes[k])), observed=dict(dequantized=float(dq[k]), expected=float(exact[k]), requantized=int(back[k])))
            xs = np.linspace((lo - z) * s, (qmax - z) * s, 4001).astype(np.float32)
            if model and symnp.model_value(model, 'x') is not None: xs = np.concatenate([xs, [f32(mv('x'))]])
            if law in ('quantize', 'monotone'):
                # any array must quantize into the range, monotonically: include values far outside the representable range
                ext = np.array([m_ * k_ for k_ in (1.5, 1e3, 1e6, 1e10, 6.5e17, 1.4e18, 1e19, 1e25, 1e30) for m_ in (s, -s)], dtype=np.float64)
                xs = np.concatenate([xs, ext[np.abs(ext) < 3e38].astype(np.float32)])
                with np.errstate(all='ignore'): qx = uq.uniform_quantize(xs, p)
                ref = np.clip(np.rint(xs.astype(np.float64) / np.float64(s) + z), lo, qmax)
                if qx.min() < lo or qx.max() > qmax:
                    return dict(confirmed=True, inputs=inputs, observed=dict(qmin=int(qx.min()), qmax=int(qx.max())))
                d0 = np.nonzero(np.abs(qx.astype(np.float64) - ref) > 1)[0]
                if len(d0):
                    k = int(d0[0]); return dict(confirmed=True, inputs=dict(inputs, x=float(xs[k])), observed=dict(quantized=int(qx[k]), reference_clip_rint=float(ref[k])))
                o = np.argsort(xs, kind='stable'); d = np.diff(qx[o].astype(np.int64))
                if (d < 0).any():
                    k = int(np.nonzero(d < 0)[0][0]); return dict(confirmed=True, inputs=dict(inputs, x1=float(xs[o][k]), x2=float(xs[o][k + 1])), observed=dict(q1=int(qx[o][k]), q2=int(qx[o][k + 1])))
                continue
            xs = xs[(xs >= np.float32((lo - z) * s)) & (xs <= np.float32((qmax - z) * s))]
            qx = uq.uniform_quantize(xs, p)
            if law == 'roundtrip':
                back = uq.uniform_dequantize(qx, p); errs = np.abs(back.astype(np.float64) - xs.astype(np.float64))
                k = int(np.argmax(errs))
                if errs[k] > s / 2 * (1 + 1e-3) + 1e-12 + ftol:
                    return dict(confirmed=True, inputs=dict(inputs, x=float(xs[k])), observed=dict(quantized=int(qx[k]), dequantized=float(back[k]), error=float(errs[k]), half_step=s / 2))
    return dict(confirmed=False, inputs=dict(model=model), observed='the counter-model did not reproduce natively')

# ------------------------------------------------------------------------------------------------ canaries
LINKS = ('pre-rounding-value', 'result-is-clip-rint', 'scale-equals-reference', 'zp-equals-reference')
CANARIES = [
    ('tensor_zp_scale_from_min_max: / qmax -> / (qmax + 1)', 'scale = bound / qmax', 'scale = bound / (qmax + 1)', ['params.b8.sym.scale-equals-reference']),
    ('tensor_zp_scale_from_min_max: drop np.minimum(min, 0)', 'bound_min = np.minimum(min_value, np.zeros_like(min_value))', 'bound_min = min_value', ['params.b8.asym.zp-in-range', 'params.b8.asym.zp-equals-reference']),
    ('_round_and_clip: qmin + 1 -> qmin', '          qmin + 1,', '          qmin,', ['quantize.b8.sym.result-in-range', 'quantize.b8.sym.result-is-clip-rint']),
    ('uniform_quantize: + zero_points -> - zero_points', 'ret = np.multiply(tensor_data, inverse_scales) + zero_points\n  ret = _round_and_clip(ret, qtype, narrow_range)\n  ret = assign_quantized_type(ret, qtype)\n  return ret\n\n\ndef uniform_dequantize',
     'ret = np.multiply(tensor_data, inverse_scales) - zero_points\n  ret = _round_and_clip(ret, qtype, narrow_range)\n  ret = assign_quantized_type(ret, qtype)\n  return ret\n\n\ndef uniform_dequantize', ['quantize.b4.asym.pre-rounding-value-is-x/scale+zp']),
    ('fix_quantization_params_rank: dim != quantized_dimension -> dim == quantized_dimension', 'if dim != quantization_params.quantized_dimension', 'if dim == quantization_params.quantized_dimension', ['locality.rank3.qdim1.fixup-shape']),
]

def run(rep):
    global GOALS
    uq = load_module(); qtyping = importlib.import_module('ai_edge_quantizer.qtyping')
    fns = {n: rep.fn(core.Fn(REL, n)) for n in FNS}
    rep.trust('numpy elementwise operations = pointwise lifting of the scalar operation on the promoted dtype (np.result_type is called, not modelled)')
    rep.trust('np.rint satisfies |rint(x)-x| <= 1/2, monotone, identity on integers (round-half-to-even does)')
    rep.trust('np.clip(x, lo, hi) = min(max(x, lo), hi); np.expand_dims/squeeze shape rules taken from numpy itself')
    rep.assume('float32/float64 arithmetic treated as real arithmetic for the metric laws (range, monotonicity, round trip, code identity); '
               'finiteness and sign of the scale are re-checked in IEEE binary32 (z3 FP theory)')
    rep.assume('rank-0 tensors (the .item() path of fix_quantization_params_rank) are outside the symbolic front end; covered by the bounded stand-in only')
    try:
        GOALS = generate(uq, qtyping) + fp_goals(uq)
    except symnp.Undecided as e:
        # the arithmetic carriers use something the symbolic front end does not lift: undecided by the contract; the laws are then searched natively on the real code
        # (every law x {4, 8} bit x symmetry with the replay harness' own input grid; at 16 bit binary32 rounding is of the order of the half step, the native
        # comparison is then only meaningful for a given counter-model) -- a failing input makes it a VIOLATION with that input, otherwise exit 2
        found = None
        for law in ('params', 'codes', 'roundtrip', 'quantize', 'monotone'):
            for bits in (4, 8):
                for sym in (True, False):
                    try: rp = native_law(uq, qtyping, law, dict(bits=bits, sym=sym), {})
                    except Exception as ex: rp = dict(confirmed=True, inputs=dict(law=law, num_bits=bits, symmetric=sym), observed=f'raised {type(ex).__name__}: {ex}')
                    if rp.get('confirmed') and found is None: found = rp
        ob = core.Ob('C17/uniform_quantize_tensor/engine-subset', None, 'cpython-exec-symnp', core.REFUTED if found else core.UNKNOWN, 0.0, detail=f'the symbolic front end could not follow the code: {e}',
                     clause='functions within the symbolic-numpy subset')
        if found: ob.replay = found
        rep.add(ob); return
    res = core.run_pool(_discharge, len(GOALS))
    kf_ids = set()
    for g, (st, dt, be, model) in zip(GOALS, res):
        ob = core.Ob(f'C17/uniform_quantize_tensor.{g.fn}/{g.id}' if g.fn else f'C17/spec-lemma/{g.id}', fns.get(g.fn), be, st, dt, detail=model, clause=str(g.goal)[:300])
        if st == 'refuted':
            if g.law:
                rp = native_law(uq, qtyping, g.law, g.cfg, model if isinstance(model, dict) else {})
                ob.replay = rp
                if not rp.get('confirmed') and any(k_ in g.id for k_ in LINKS):
                    # a code-to-reference link (a lemma used to carry the laws) no longer holds, but no law of the property fails on
                    # the real code for any replayed input: the property is undecided by this contract, not violated
                    ob.status = core.INCONCLUSIVE; ob.detail = f'link lemma refuted ({model}); native law replay found no failing input'

            else: ob.replay = dict(confirmed=False, note='structural goal evaluated by executing the real code', model=model)
        k = rep.finding_for(ob.id)
        if k is not None and st != 'proved':
            # the listed witness is replayed natively; the finding suppresses only its own listed obligations, and only while
            # the witness still fails on the real code
            w = k.get('witness', {})
            wr = native_law(uq, qtyping, 'fp32', g.cfg, {'mn': w.get('min'), 'mx': w.get('max')}) if g.law == 'fp32' else (ob.replay or {})
            if wr.get('confirmed') and g.law == 'fp32':
                # re-prove the SAME obligation under the hypothesis that excludes exactly the listed class (range overflow);
                # a different violation of this obligation is therefore still reported
                F32 = z3.Float32(); mnf, mxf = z3.FP('mn', F32), z3.FP('mx', F32); zero = z3.FPVal(0.0, F32)
                rng = z3.fpSub(symnp.RNE, z3.If(z3.fpGEQ(mxf, zero), mxf, zero), z3.If(z3.fpLEQ(mnf, zero), mnf, zero))
                g.hyps = g.hyps + [z3.Not(z3.fpIsInf(rng))]
                GOALS = [g]; st2, dt2, be2, m2 = _discharge(0)
                if k['id'] not in kf_ids: rep.known_finding(k, True); kf_ids.add(k['id'])
                ob.status, ob.time_s, ob.backend, ob.detail = st2, dt + dt2, be2 + '+class-exclusion', m2
                ob.id += '[excluding:' + k['id'] + ']'
                if st2 == 'refuted': ob.replay = native_law(uq, qtyping, 'fp32', g.cfg, m2 or {})
        rep.add(ob)
    # bounded stand-in: rank-0 path and exhaustive codes for 4/8 bit on the real code
    cases = fails = 0
    for bits, sym in itertools.product((4, 8), (True, False)):
        for (a, b) in [(-1.0, 1.0), (0.0, 3.0), (-5.0, 0.0), (0.0, 0.0), (-1e-7, 1e-7), (-3e4, 7e3)]:
            rp = native_law(uq, qtyping, 'codes', dict(bits=bits, sym=sym), {'mn': str(fractions.Fraction(a)), 'mx': str(fractions.Fraction(b))}); cases += 1
            if rp['confirmed']: fails += 1
    p0 = qtyping.UniformQuantParams(num_bits=8, quantized_dimension=None, scale=np.array([0.5], np.float32), zero_point=np.array([3], np.int8), symmetric=False)
    q0 = uq.uniform_quantize(np.array(1.25, np.float32), p0); cases += 1
    if q0.shape != () or int(q0) != int(np.rint(1.25 / 0.5 + 3)): fails += 1
    rep.add_bounded('uniform_quantize/uniform_dequantize (all codes, 4/8 bit, 6 ranges) + rank-0 path', 'exhaustive codes x 6 ranges x 2 symmetries; one rank-0 case', cases, fails)
    if fails and not rep.finding_for('C17/bounded'): rep.errors.append('bounded stand-in disagrees with the proved obligations')
    # canaries: mutate the source text just read (in memory) and require the named obligations to fail
    src = core.read_source(REL)
    for name, a, b, expect in CANARIES:
        if a not in src: rep.canary(name, False, 'mutation site not found (stale canary)'); continue
        try:
            mu = load_module(src.replace(a, b, 1)); gl = generate(mu, qtyping)
        except Exception as e:
            rep.canary(name, True, f'mutant rejected while executing: {type(e).__name__}'); continue
        GOALS = [g for g in gl if g.id in expect]
        rs = [_discharge(i) for i in range(len(GOALS))]
        rep.canary(name, bool(GOALS) and any(r[0] != 'proved' for r in rs), str([(g.id, r[0]) for g, r in zip(GOALS, rs)]))
    # covers: hypotheses of each family are satisfiable
    for bits, sym in ((8, True), (8, False)):
        s = z3.Solver(); mn, mx = z3.Reals('mn mx'); s.add(mn <= mx, mn < 0, mx > 0); rep.cover(f'params.b{bits}.{sym}', s.check() == z3.sat)

def replay(payload):
    uq = load_module(); qtyping = importlib.import_module('ai_edge_quantizer.qtyping')
    inp = payload.get('inputs', {})
    print('replaying', payload.get('obligation'), inp)
    law = 'fp32' if 'fp32' in payload.get('obligation', '') else ('codes' if 'codes' in payload['obligation'] else 'roundtrip' if 'roundtrip' in payload['obligation'] else 'params')
    model = {'mn': str(fractions.Fraction(inp.get('min', 0.0))), 'mx': str(fractions.Fraction(inp.get('max', 0.0)))}
    if law == 'fp32': model = {'mn': inp.get('min'), 'mx': inp.get('max')}
    rp = native_law(uq, qtyping, law, dict(bits=inp.get('num_bits', 8), sym=inp.get('symmetric', False)), model)
    print(rp); return 1 if rp['confirmed'] else 0
