"""C11 — recipe resolution follows the documented last-applicable-rule-wins model.

RecipeManager.add_quantization_config and get_quantization_configs are verified (pyvc, unbounded: any number of scopes and rules)
against the abstract view and the spec functions of contracts/recipe.py, which are transcribed from the property text.
load_quantization_recipe = clear + fold(add) is a dataflow obligation on its AST.  Counter-models are replayed through a native
oracle (the same spec in Python) over enumerated update histories on the real RecipeManager."""
import ast, importlib, itertools
from vlib import core, pyvc
from contracts import recipe
LEVEL = 'proof'
RM = 'recipe_manager.py'

# ---------------------------------------------------------------------------------------------- native oracle (spec in Python)
def _mods():
    core.stub_package()
    import absl.logging; absl.logging.set_verbosity('error')          # add_quantization_config logs a warning for every in-place replacement
    rm = importlib.import_module('ai_edge_quantizer.recipe_manager'); qt = importlib.import_module('ai_edge_quantizer.qtyping')
    am = importlib.import_module('ai_edge_quantizer.algorithm_manager')
    return rm, qt, am
def alphabet():
    rm, qt, am = _mods(); T = qt.TensorQuantizationConfig; O = qt.OpQuantizationConfig; CP = qt.ComputePrecision
    cfgs = [O(activation_tensor_config=T(8, False), weight_tensor_config=T(8, True), compute_precision=CP.INTEGER),           # SRQ a8w8 (supported for FC/CONV)
            O(weight_tensor_config=T(8, True), compute_precision=CP.INTEGER),                                                  # DRQ
            O(weight_tensor_config=T(16, True, dtype=qt.TensorDataType.FLOAT), compute_precision=CP.FLOAT, explicit_dequantize=True),   # fp16 (float_casting only)
            O(weight_tensor_config=T(3, False), compute_precision=CP.INTEGER)]                                                 # unsupported everywhere
    N = qt.TFLOperationName
    rules = [(rx, op, alg, c) for rx in ('.*', 'conv', 'dense;') for op in (N.ALL_SUPPORTED, N.FULLY_CONNECTED, N.CONV_2D)
             for alg in ('min_max_uniform_quantize', 'no_quantize', 'float_casting') for c in range(len(cfgs))]
    queries = [(op, sc) for op in (N.FULLY_CONNECTED, N.CONV_2D, N.ADD) for sc in ('conv1;', 'dense;', 'other')]
    return rules, cfgs, queries
def supported(am, alg, op, cfg):
    try: am.check_op_quantization_config(alg, op, cfg); return True
    except ValueError: return False
def spec_add(view, rule, am, qt, cfgs):
    """view: list of [regex, [rule...]] in first-insertion order; returns new view or raises ValueError (view unchanged)"""
    rx, op, alg, ci = rule
    if op != qt.TFLOperationName.ALL_SUPPORTED and alg != 'no_quantize' and not supported(am, alg, op, cfgs[ci]): raise ValueError('unsupported')
    view = [[k, list(v)] for k, v in view]
    for ent in view:
        if ent[0] == rx:
            if op == qt.TFLOperationName.ALL_SUPPORTED: ent[1] = [rule]
            elif any(r[1] == op for r in ent[1]): ent[1] = [rule if r[1] == op else r for r in ent[1]]
            else: ent[1].append(rule)
            return view
    return view + [[rx, [rule]]]
def spec_resolve(view, op, scope, am, qt, cfgs):
    import re
    res = ('no_quantize', None)
    for rx, rules in view:
        if re.search(rx, scope):
            for (_, rop, alg, ci) in rules:
                if rop != qt.TFLOperationName.ALL_SUPPORTED and rop != op: continue
                if alg != 'no_quantize' and not supported(am, alg, op, cfgs[ci]): continue
                res = (alg, ci)
    return res
def run_history(hist, rules, cfgs, queries):
    """returns None or a description of the first disagreement between the real RecipeManager and the spec"""
    rm, qt, am = _mods(); m = rm.RecipeManager(); view = []
    for step, ri in enumerate(hist):
        rule = rules[ri]; rx, op, alg, ci = rule
        try: nv = spec_add(view, rule, am, qt, cfgs); spec_raises = False
        except ValueError: nv = view; spec_raises = True
        try: m.add_quantization_config(rx, op, cfgs[ci], alg); real_raises = False
        except ValueError: real_raises = True
        if real_raises != spec_raises: return dict(step=step, what=f'add raises={real_raises}, spec raises={spec_raises}', rule=str(rule))
        view = nv
        got = [(c['regex'], c['operation'], c['algorithm_key']) for c in m.get_quantization_recipe()]
        want = [(r[0], r[1], r[2]) for k, v in view for r in v]
        if got != want: return dict(step=step, what='view differs', got=str(got), want=str(want))
        for (op_q, sc) in queries:
            k, c = m.get_quantization_configs(op_q, sc); wk, wci = spec_resolve(view, op_q, sc, am, qt, cfgs)
            wc = qt.OpQuantizationConfig() if wci is None else cfgs[wci]
            if k != wk or c != wc: return dict(step=step, what=f'resolve({op_q},{sc!r}) = ({k}, ...) expected ({wk}, cfg#{wci})')
    return None
def search(label=None, max_len=2, stride=1):
    rules, cfgs, queries = alphabet(); n = 0
    # length-3 histories over a reduced alphabet (two overlapping regexes, star and specific selectors, one supported and one
    # unsupported config): scope-order and replace-in-place effects need an earlier regex to be touched after a later one exists
    red = [i for i, (rx, op, alg, c) in enumerate(rules) if rx in ('.*', 'conv') and alg in ('min_max_uniform_quantize', 'no_quantize') and c in (0, 3)]
    for hist in itertools.product(red, repeat=3):
        n += 1; bad = run_history(hist, rules, cfgs, queries)
        if bad: return dict(confirmed=True, inputs=dict(history=[str(rules[i]) for i in hist], indices=list(hist)), observed=bad, cases=n)
    for L in range(1, max_len + 1):
        for k, hist in enumerate(itertools.product(range(len(rules)), repeat=L)):
            if L >= 2 and k % stride: continue
            n += 1; bad = run_history(hist, rules, cfgs, queries)
            if bad: return dict(confirmed=True, inputs=dict(history=[str(rules[i]) for i in hist], indices=list(hist)), observed=bad, cases=n)
    return dict(confirmed=False, cases=n)

def load_obligation(rep):
    fn = rep.fn(core.Fn(RM, 'RecipeManager.load_quantization_recipe')); U = ast.unparse; body = [s for s in fn.node.body if not (isinstance(s, ast.Expr) and isinstance(s.value, ast.Constant))]
    ok_clear = len(body) == 2 and U(body[0]) == 'self._scope_configs = collections.OrderedDict()'
    ok_fold = False; detail = ''
    if len(body) == 2 and isinstance(body[1], ast.For) and U(body[1].iter) == 'quantization_recipe' and len(body[1].body) == 1:
        call = body[1].body[0].value if isinstance(body[1].body[0], ast.Expr) else None
        if isinstance(call, ast.Call) and U(call.func) == 'self.add_quantization_config' and len(call.args) == 4:
            a = [U(x) for x in call.args]; detail = str(a)
            ok_fold = a[0] == "config['regex']" and a[1] == "config['operation']" and a[3] == "config['algorithm_key']" and "_OpQuantizationConfig.from_dict(config['op_config'])" in a[2]
    return [core.Ob(f'C11/{fn.name}/load-is-clear-then-fold-add.{c}', fn, 'ast-dataflow', core.PROVED if ok else core.REFUTED, 0.0, detail=detail, clause=c)
            for c, ok in (('starts-from-the-empty-view', ok_clear), ('adds-every-record-in-order-through-add_quantization_config', ok_fold))]

CANARIES = [('add_quantization_config: "*" appends instead of resetting the scope', 'RecipeManager.add_quantization_config', recipe.AddConfig,
             "    if config.operation == _TFLOpName.ALL_SUPPORTED:\n      self._scope_configs[regex] = [config]\n      return", "    if config.operation == _TFLOpName.ALL_SUPPORTED and regex not in self._scope_configs:\n      self._scope_configs[regex] = [config]\n      return"),
            ('add_quantization_config: replaced rule keeps the OLD config', 'RecipeManager.add_quantization_config', recipe.AddConfig, '          op_config = config\n', '          op_config = existing_config\n'),
            ('get_quantization_configs: unsupported rule stops the scan (continue -> break)', 'RecipeManager.get_quantization_configs', recipe.GetConfigs, '              continue  # Skip the recipe if it is not supported.', '              break'),
            ('get_quantization_configs: first applicable rule wins (result kept once set)', 'RecipeManager.get_quantization_configs', recipe.GetConfigs, '          result_key = selected_recipe.algorithm_key', "          result_key = selected_recipe.algorithm_key if result_key == AlgorithmName.NO_QUANTIZE else result_key")]

def run(rep):
    fb = lambda label: search(label, 2, 7)
    pyvc.verify(rep, 'C11', core.Fn(RM, 'RecipeManager.add_quantization_config'), recipe.AddConfig(), fallback=fb)
    pyvc.verify(rep, 'C11', core.Fn(RM, 'RecipeManager.get_quantization_configs'), recipe.GetConfigs(), fallback=fb)
    rep.extend(load_obligation(rep))
    # bounded stand-in: real RecipeManager against the Python transcription of the spec over update histories
    r = search(None, 2, 1 if rep.tier == 'thorough' else 5)
    rep.add_bounded('RecipeManager (add / get_quantization_recipe / get_quantization_configs) vs the spec functions', 'all histories of length 1, every 5th (quick) / all (thorough) of length 2 over 108 rules (3 regexes x {*,FC,CONV} x 3 algorithms x 4 configs incl. unsupported), 9 queries after every step', r['cases'], 1 if r['confirmed'] else 0)
    if r['confirmed']:
        ob = core.Ob('C11/bounded.histories/real-manager-equals-spec', None, 'bounded-native', core.REFUTED, 0.0, detail=str(r['observed']), clause='resolution = last applicable rule over the view built by add'); ob.replay = r; rep.add(ob)
    src = core.read_source(RM)
    for name, qual, mk, a, b in CANARIES:
        if a not in src: rep.canary(name, False, 'mutation site not found (stale canary)'); continue
        try:
            E = pyvc.run_function(core.Fn(RM, qual, src_override=src.replace(a, b)), mk())
            bad = [ob.label for ob, st, dt, det, mv in pyvc.decide_parallel(E, E.spec, timeout=20000, canary=True) if st != 'proved']; rep.canary(name, bool(bad), str(bad[:3]))
        except pyvc.Unsupported as e: rep.canary(name, True, f'mutant leaves the engine subset: {e}')
    rep.trust('re.search(regex, scope) and the support check are pure functions (uninterpreted); the support check raises only ValueError (C13 clause c1, exhaustive)')
    rep.trust('collections.OrderedDict = insertion-ordered map (engine dict model); dataclass equality of configs abstracted to value identity, the default config being one distinguished value')
    rep.assume('the default registry contains a policy for every registered algorithm (otherwise KeyError escapes the support check)')

def replay(payload):
    inp = payload.get('inputs', {})
    if 'indices' in inp:
        rules, cfgs, queries = alphabet(); bad = run_history(tuple(inp['indices']), rules, cfgs, queries); print(bad); return 1 if bad else 0
    r = search(None, 2, 3); print(r); return 1 if r['confirmed'] else 0
