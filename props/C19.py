from vlib import core
from props import graphcommon as gc
LEVEL = 'proof'
PROP = 'C19'
"""C19 — each subgraph of a multi-signature model is transformed as if it stood alone (frame clauses)."""
def multisub_standin(rep):
    """bounded stand-in: subgraph i of quantize(two-subgraph model) == subgraph 0 of quantize(model made of subgraph i), by tensor name"""
    from bounded import multisub as ms
    structs, cs = ms.cases(); fails = 0; first = None
    for c in cs:
        f = [x for x in ms.run_case(c, structs) if x.startswith('C19') or x.startswith('RAISE-multi')]
        if f: fails += 1; first = first or (c, f)
    rep.add_bounded('Quantizer.quantize on two-subgraph / two-signature models vs the stand-alone subgraphs (operators, wiring, dtypes, parameters, constant bytes; by tensor name)',
                    '3 op structures {FC-FC, FC-TANH, TANH-FC-ADD} squared x 3 tensor-numbering pairs (activations first / weights first / interleaved) x {weight-only, dynamic-range, static-range 8 bit}; statistics per signature, merged', len(cs), fails)
    if first:
        ob = core.Ob('C19/bounded.multisub/subgraph-equals-stand-alone-result', None, 'bounded-native', core.REFUTED, 0.0, detail=str(first[1]), clause='subgraph i of the multi-subgraph result equals the result of quantizing subgraph i alone')
        ob.replay = dict(confirmed=True, inputs=dict(multisub_case=first[0]), violated=first[1]); rep.add(ob)

def run(rep):
    gc.small_carriers(rep, PROP); gc.insert_obligations(rep, PROP); gc.performer_obligations(rep, PROP); gc.names_obligations(rep, PROP); gc.signature_obligations(rep, PROP); gc.tensorinfo_obligations(rep, PROP)
    multisub_standin(rep)
    gc.canaries(rep); gc.performer_canaries(rep)
    rep.assume('subgraph object graphs are disjoint (no operator/tensor/list object shared between two subgraphs): true of models parsed by the flatbuffer object API')
    rep.assume('plan generation (params_generator loops keyed by tensor name; uniqueness check) and shared constants (C15) are not re-proved here')
    rep.trust('flatbuffer object-API classes are plain attribute bags')
from props.C01 import replay as _replay01
def replay(payload):
    inp = payload.get('inputs', {})
    if 'multisub_case' in inp:
        from bounded import multisub as ms
        f = ms.run_case(inp['multisub_case']); print(f); return 1 if f else 0
    return _replay01(payload)
