from vlib import core
from props import graphcommon as gc
LEVEL = 'proof'
PROP = 'C19'
"""C19 — each subgraph of a multi-signature model is transformed as if it stood alone (frame clauses)."""
def run(rep):
    gc.small_carriers(rep, PROP); gc.insert_obligations(rep, PROP); gc.performer_obligations(rep, PROP); gc.names_obligations(rep, PROP)
    gc.canaries(rep); gc.performer_canaries(rep)
    rep.assume('subgraph object graphs are disjoint (no operator/tensor/list object shared between two subgraphs): true of models parsed by the flatbuffer object API')
    rep.assume('plan generation (params_generator loops keyed by tensor name; uniqueness check) and shared constants (C15) are not re-proved here')
    rep.trust('flatbuffer object-API classes are plain attribute bags')
from props.C01 import replay
