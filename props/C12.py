"""C12 — a saved recipe reloads to the same rules; every shipped recipe loads; default recipes re-export to themselves.

Functions under contract (real source, executed natively, never copied):
  qtyping.TensorQuantizationConfig.to_dict / from_dict, qtyping.OpQuantizationConfig.__post_init__ / to_dict / from_dict,
  recipe_manager.RecipeManager.add_quantization_config / get_quantization_recipe / load_quantization_recipe / get_quantization_configs.

Deciding method (DESIGN C12): the configuration space is a FINITE skeleton (None/present x symmetric x granularity x dtype x compute
precision x explicit_dequantize x skip_checks, each in enum- and in string-valued form) times unbounded integers (num_bits, block_size)
that the serialisation code only copies.  The real functions are executed on every skeleton with OPAQUE integers: an int subclass
whose every inspection other than identity / equality with another opaque integer raises `Inspected`.  A run in which nothing raises
`Inspected` shows the executed code is parametric in those integers, so the enumeration decides the clause for ALL integers.
Where the code legitimately inspects integers (policy membership for specific operators, resolution of '*' rules) concrete integers
are used and the result is labelled bounded.

Obligation families
  A  C12/qtyping.TensorQuantizationConfig.from_dict/roundtrip.<t>                 one per tensor skeleton           (opaque, complete)
  B  C12/qtyping.OpQuantizationConfig.from_dict/roundtrip.w=<t>.a=<t>.cp=..ed=..sk=..  one per constructible skeleton (opaque, complete)
  C  C12/qtyping.OpQuantizationConfig.__post_init__/constructible-same-for-enum-and-str
  D  C12/recipe_manager.RecipeManager.load_quantization_recipe/rule-roundtrip.alg=<a>.w=<None|set>.a=<None|set>
        single '*' rule (never inspected at update time) x every skeleton, through add/get/json/load/get      (opaque, complete)
  E  C12/recipe_manager.RecipeManager.load_quantization_recipe/file.<name>.loads | .re-exports-to-itself      (directory listing)
  bounded: histories of up to 3 update calls over a finite rule alphabet, equal recipe + identical resolution of a probe set."""
import copy, importlib, itertools, json, os, sys, time, types
from vlib import core

LEVEL = 'proof'
QT, RM, RECIPE_PY = 'qtyping.py', 'recipe_manager.py', 'recipe.py'
PFX_T = 'C12/qtyping.TensorQuantizationConfig.from_dict/roundtrip.'
PFX_O = 'C12/qtyping.OpQuantizationConfig.from_dict/roundtrip.'
PFX_R = 'C12/recipe_manager.RecipeManager.load_quantization_recipe/rule-roundtrip.'
PFX_F = 'C12/recipe_manager.RecipeManager.load_quantization_recipe/file.'
ALGS = ('min_max_uniform_quantize', 'float_casting', 'no_quantize')

# ------------------------------------------------------------------------------------------------ opaque integers
class Inspected(Exception):
    """an opaque integer was looked at: the parametricity argument does not apply to this execution"""

_SENT = itertools.count(900_000_007, 1_000)
class Opaque(int):
    """an integer nobody may look at: everything except identity, equality with another opaque integer, hash, repr and (deep)copy raises"""
    def __new__(cls, tag):
        o = int.__new__(cls, 0); o.tag = tag; o.sent = next(_SENT); return o
    def __eq__(s, o):
        if s is o: return True
        if isinstance(o, Opaque): return s.tag == o.tag
        raise Inspected(f'{s!r} compared with {type(o).__name__}')
    def __ne__(s, o): return not s.__eq__(o)
    def __hash__(s): return hash(('opaque', s.tag))
    def __deepcopy__(s, memo): return s
    def __copy__(s): return s
    def __repr__(s): return f'<int {s.tag}>'
    __str__ = __repr__
    def __format__(s, spec): return repr(s)
    def _no(s, *a, **k): raise Inspected(f'{s!r} inspected')
    __lt__ = __le__ = __gt__ = __ge__ = __bool__ = __index__ = __int__ = __float__ = __neg__ = __pos__ = __abs__ = __invert__ = _no
    __add__ = __radd__ = __sub__ = __rsub__ = __mul__ = __rmul__ = __mod__ = __rmod__ = __floordiv__ = __rfloordiv__ = _no
    __truediv__ = __rtruediv__ = __pow__ = __rpow__ = __and__ = __or__ = __xor__ = __lshift__ = __rshift__ = __divmod__ = __round__ = __trunc__ = _no

def opaque_ints(tag): return Opaque(tag)
CONCRETE = {'a.num_bits': 16, 'a.block_size': 3, 'w.num_bits': 4, 'w.block_size': 32, 't.num_bits': 8, 't.block_size': 64}
def concrete_ints(tag): return CONCRETE[tag]

def json_roundtrip(d):
    """the REAL json.dumps / json.loads.  Opaque integers are sent through as distinct sentinel integers and mapped back afterwards
    (trusted: json maps every int to itself independently of its value); with concrete integers this is exactly json.loads(json.dumps(d))."""
    sent = {}
    def out(x):
        if isinstance(x, Opaque): sent[x.sent] = x; return x.sent
        if isinstance(x, dict): return {k: out(v) for k, v in x.items()}
        if isinstance(x, (list, tuple)): return [out(v) for v in x]
        return x
    def back(x):
        if type(x) is int and x in sent: return sent[x]
        if isinstance(x, dict): return {k: back(v) for k, v in x.items()}
        if isinstance(x, list): return [back(v) for v in x]
        return x
    return back(json.loads(json.dumps(out(d))))

def safe_eq(x, y):
    """== where an opaque integer meeting a non-integer counts as 'different' (the comparison is ours, not the repository's)"""
    try: return bool(x == y)
    except Inspected: return False

# ------------------------------------------------------------------------------------------------ real modules
class Mods:
    def __init__(self, q, rm=None, am=None): self.q, self.rm, self.am = q, rm, am

def _exec_module(name, relpath, src):
    m = types.ModuleType(name); m.__file__ = os.path.join(core.PKG, relpath)
    sys.modules[name] = m            # dataclasses resolves cls.__module__ through sys.modules
    exec(compile(src, m.__file__, 'exec'), m.__dict__); return m

def load_qtyping(src_override=None):
    core.stub_package()
    if src_override is None: return importlib.import_module('ai_edge_quantizer.qtyping')
    return _exec_module('qtyping_mutant', QT, src_override)

def load_recipe_manager(src_override=None):
    core.stub_package()
    if src_override is None: return importlib.import_module('ai_edge_quantizer.recipe_manager')
    return _exec_module('recipe_manager_mutant', RM, src_override)

def load_all():
    core.stub_package()
    q = load_qtyping()
    am = importlib.import_module('ai_edge_quantizer.algorithm_manager')      # pulls tensorflow through tfl_flatbuffer_utils (slow, once)
    rm = load_recipe_manager()
    try:
        from absl import logging as absl_logging
        absl_logging.set_verbosity(absl_logging.ERROR)     # the 'Overwrite operation' warning is I/O only
    except Exception: pass
    return Mods(q, rm, am)

# ------------------------------------------------------------------------------------------------ skeletons
def tensor_specs(q):
    return [(sym, g.value, d.value) for sym in (True, False) for g in q.QuantGranularity for d in q.TensorDataType]
def tkey(s): return 'None' if s is None else f'{s[2]}-{"sym" if s[0] else "asym"}-{s[1]}'
def op_skeletons(q):
    ts = [None] + tensor_specs(q)
    for w in ts:
        for a in ts:
            for cp in q.ComputePrecision:
                for ed in (False, True):
                    for sk in (False, True):
                        yield (a, w, cp.value, ed, sk)
def okey(s): return f'w={tkey(s[1])}.a={tkey(s[0])}.cp={s[2]}.ed={int(s[3])}.sk={int(s[4])}'

def mk_tensor(q, spec, tag, ints, as_str):
    if spec is None: return None
    sym, g, d = spec
    return q.TensorQuantizationConfig(ints(tag + '.num_bits'), sym, g if as_str else q.QuantGranularity(g), d if as_str else q.TensorDataType(d), ints(tag + '.block_size'))
def mk_op(q, s, ints, as_str):
    a, w, cp, ed, sk = s
    return q.OpQuantizationConfig(mk_tensor(q, a, 'a', ints, as_str), mk_tensor(q, w, 'w', ints, as_str), cp if as_str else q.ComputePrecision(cp), ed, sk)

def enc_tensor(spec, tag, ints):
    if spec is None: return None
    return dict(num_bits=ints(tag + '.num_bits'), symmetric=spec[0], granularity=spec[1], dtype=spec[2], block_size=ints(tag + '.block_size'))
def enc_op(s): return dict(activation=enc_tensor(s[0], 'a', concrete_ints), weight=enc_tensor(s[1], 'w', concrete_ints), compute_precision=s[2], explicit_dequantize=s[3], skip_checks=s[4])
def dec_tensor(q, d, as_str=False):
    if d is None: return None
    return q.TensorQuantizationConfig(d['num_bits'], d['symmetric'], d['granularity'] if as_str else q.QuantGranularity(d['granularity']),
                                      d['dtype'] if as_str else q.TensorDataType(d['dtype']), d.get('block_size', 0))
def dec_op(q, d, as_str=False):
    return q.OpQuantizationConfig(dec_tensor(q, d['activation'], as_str), dec_tensor(q, d['weight'], as_str),
                                  d['compute_precision'] if as_str else q.ComputePrecision(d['compute_precision']), d['explicit_dequantize'], d['skip_checks'])
def enc_cfg_obj(c):
    """JSON-able description of a concrete config object (written here; does not use the functions under test)"""
    def t(x): return None if x is None else dict(num_bits=int(x.num_bits), symmetric=bool(x.symmetric), granularity=str(getattr(x.granularity, 'value', x.granularity)),
                                                   dtype=str(getattr(x.dtype, 'value', x.dtype)), block_size=int(x.block_size))
    return dict(activation=t(c.activation_tensor_config), weight=t(c.weight_tensor_config), compute_precision=str(getattr(c.compute_precision, 'value', c.compute_precision)),
                explicit_dequantize=bool(c.explicit_dequantize), skip_checks=bool(c.skip_checks))

# ------------------------------------------------------------------------------------------------ the clauses, on real code
def describe(e): return f'{type(e).__name__}: {str(e)[:160]}'

def record_roundtrip(cls, c):
    """clause: from_dict(json(to_dict(c))) == c, both ways round, and re-serialises to the same JSON.  Returns None or a failure text."""
    try:
        d = c.to_dict(); j = json_roundtrip(d); c2 = cls.from_dict(j)
    except Inspected: raise
    except Exception as e: return describe(e)
    if type(c2) is not cls: return f'from_dict returned {type(c2).__name__}'
    if not safe_eq(c2, c) or not safe_eq(c, c2): return f'NOT-EQUAL: reloaded {c2!r} != original {c!r}'
    try: j2 = json_roundtrip(c2.to_dict())
    except Inspected: raise
    except Exception as e: return 're-export: ' + describe(e)
    if not safe_eq(j2, j): return f'RE-EXPORT-DIFFERS: {j2!r} != {j!r}'
    return None

def check_tensor_skeleton(q, spec, ints):
    T = q.TensorQuantizationConfig
    ce, cs = mk_tensor(q, spec, 't', ints, False), mk_tensor(q, spec, 't', ints, True)
    for rep_, c in (('enum', ce), ('str', cs)):
        f = record_roundtrip(T, c)
        if f: return rep_, f
    if not safe_eq(ce, cs): return 'str', 'string-valued config differs from the enum-valued one'
    if not safe_eq(json_roundtrip(ce.to_dict()), json_roundtrip(cs.to_dict())): return 'str', 'string- and enum-valued configs serialise differently'
    return None

def constructible(q, s, ints, as_str):
    try: mk_op(q, s, ints, as_str); return True
    except Inspected: raise
    except ValueError: return False

def check_op_skeleton(q, s, ints):
    """None if the clause holds for this skeleton, else (representation, failure text)."""
    O = q.OpQuantizationConfig
    ce, cs = mk_op(q, s, ints, False), mk_op(q, s, ints, True)
    for rep_, c in (('enum', ce), ('str', cs)):
        f = record_roundtrip(O, c)
        if f: return rep_, f
    if not safe_eq(ce, cs): return 'str', 'string-valued config differs from the enum-valued one'
    if not safe_eq(json_roundtrip(ce.to_dict()), json_roundtrip(cs.to_dict())): return 'str', 'string- and enum-valued configs serialise differently'
    return None

def default_cfg_json(q): return json_roundtrip(q.OpQuantizationConfig().to_dict())

def check_rule(m, regex, op, alg, cfg, probes=None):
    """one rule through add -> get -> json -> load(fresh) -> get.  `probes`: list of (op, scope) resolved on both managers (concrete ints only)."""
    return check_history(m, [(regex, op, alg, cfg)], probes)

def check_history(m, rules, probes=None, info=None):
    """the clause for the plain history AND for the same history with pure observers between the updates (export + one resolution after every update: what
    need_calibration / calibrate / quantize / save do on a Quantizer); the recipe exported at the end must not depend on having been observed"""
    i1 = {}; f = _check_history(m, rules, probes, i1, observe=False)
    if info is not None: info.update(i1)
    if f: return f
    i2 = {}; f = _check_history(m, rules, probes, i2, observe=True)
    if f: return 'with observers between the updates (get_quantization_recipe, get_quantization_configs): ' + f
    if not safe_eq(i1.get('recipe'), i2.get('recipe')): return f'EXPORT-DEPENDS-ON-HISTORY: recipe exported after observed updates {i2.get("recipe")!r} != recipe exported after the same updates unobserved {i1.get("recipe")!r}'
    return None
def _check_history(m, rules, probes=None, info=None, observe=False):
    """clause: view(load(json(get(rm)))) == view(rm), and identical resolution of the probe set.  Rules rejected at update time (ValueError)
    leave the manager unchanged and the history continues.  Returns None or a failure text."""
    RMc = m.rm.RecipeManager
    a = RMc(); applied = 0
    for (regex, op, alg, cfg) in rules:
        if observe:
            try:
                a.get_quantization_recipe()
                if probes: a.get_quantization_configs(*probes[0])
            except Inspected: raise
            except Exception: pass
        try: a.add_quantization_config(regex, op, cfg, alg); applied += 1
        except Inspected: raise
        except ValueError: pass
    try:
        r = a.get_quantization_recipe(); j = json_roundtrip(r)
    except Inspected: raise
    except Exception as e: return 'get_quantization_recipe/json: ' + describe(e)
    if info is not None: info['recipe'] = j; info['applied'] = applied
    b = RMc()
    try: b.load_quantization_recipe(j)
    except Inspected: raise
    except Exception as e: return 'load_quantization_recipe raises ' + describe(e)
    try: r2 = b.get_quantization_recipe(); j2 = json_roundtrip(r2)
    except Inspected: raise
    except Exception as e: return 'get_quantization_recipe after reload: ' + describe(e)
    if not safe_eq(j2, j): return f'RECIPE-DIFFERS after reload: {j2!r} != {j!r}'
    if not safe_eq(r2, r): return f'RECIPE-DIFFERS (before JSON) after reload: {r2!r} != {r!r}'
    va = [(k, [(x.regex, x.operation, x.algorithm_key, x.op_config) for x in v]) for k, v in a._scope_configs.items()]
    vb = [(k, [(x.regex, x.operation, x.algorithm_key, x.op_config) for x in v]) for k, v in b._scope_configs.items()]
    if not safe_eq(va, vb): return f'VIEW-DIFFERS after reload: {vb!r} != {va!r}'
    for (pop, scope) in probes or ():
        try: ra = a.get_quantization_configs(pop, scope); rb = b.get_quantization_configs(pop, scope)
        except Exception as e: return f'get_quantization_configs({pop}, {scope!r}) raises ' + describe(e)
        if not (safe_eq(ra, rb) and safe_eq(rb, ra)):
            return f'RESOLUTION-DIFFERS for ({pop}, {scope!r}): original {ra!r}, reloaded {rb!r} (algorithm key equal: {safe_eq(ra[0], rb[0])})'
    return None

def recipes_dir(): return os.path.join(core.PKG, 'recipes')
def recipe_files(): return sorted(f for f in os.listdir(recipes_dir()) if f.endswith('.json'))
def is_default_recipe(name): return not name.startswith('sample_')

def check_file(m, name, clause):
    with open(os.path.join(recipes_dir(), name)) as f: loaded = json.load(f)
    b = m.rm.RecipeManager()
    try: b.load_quantization_recipe(copy.deepcopy(loaded))
    except Exception as e: return 'load_quantization_recipe raises ' + describe(e)
    if clause == 'loads': return None
    out = json.loads(json.dumps(b.get_quantization_recipe()))
    if out != loaded: return f'RE-EXPORT-DIFFERS: exported {out!r} != file {loaded!r}'
    return None

def check_recipe_py(m):
    """recipe.dynamic_wi8_afp32() (the recipe shipped as code) equals its JSON twin, loads, and re-exports to itself"""
    core.stub_package(); rp = importlib.import_module('ai_edge_quantizer.recipe')
    out = []
    for name in sorted(n for n in dir(rp) if not n.startswith('_') and callable(getattr(rp, n))):
        r = getattr(rp, name)()
        b = m.rm.RecipeManager()
        try: b.load_quantization_recipe(copy.deepcopy(r))
        except Exception as e: out.append((name, 'load raises ' + describe(e))); continue
        exp = json.loads(json.dumps(b.get_quantization_recipe()))
        if exp != json.loads(json.dumps(r)): out.append((name, f'RE-EXPORT-DIFFERS: {exp!r}')); continue
        twin = os.path.join(recipes_dir(), name + '_recipe.json')
        if os.path.exists(twin):
            with open(twin) as f:
                if json.load(f) != json.loads(json.dumps(r)): out.append((name, 'differs from ' + os.path.basename(twin))); continue
        out.append((name, None))
    return out

# ------------------------------------------------------------------------------------------------ native replay of one recorded input
def run_case(inp, m=None):
    """re-executes a recorded input on the real code with concrete integers and the real json module -> (fails, observed)"""
    m = m or load_all(); q = m.q; kind = inp.get('kind')
    try:
        if kind == 'tensor_config':
            d = inp['config']
            for as_str in (False, True):
                f = record_roundtrip(q.TensorQuantizationConfig, dec_tensor(q, d, as_str))
                if f: return True, f
            return False, 'round trip ok'
        if kind == 'op_config':
            d = inp['config']
            for as_str in (False, True):
                f = record_roundtrip(q.OpQuantizationConfig, dec_op(q, d, as_str))
                if f: return True, f
            return False, 'round trip ok'
        if kind == 'rules':
            rules = [(r['regex'], r['operation'], r['algorithm_key'], None if r['op_config'] is None else dec_op(q, r['op_config'])) for r in inp['rules']]
            f = check_history(m, rules, [tuple(p) for p in inp.get('probes', [])])
            return (f is not None), (f or 'recipe reloads to an equal recipe and resolves identically')
        if kind == 'file':
            f = check_file(m, inp['file'], inp.get('clause', 'loads'))
            return (f is not None), (f or 'ok')
        if kind == 'recipe_py':
            bad = [x for x in check_recipe_py(m) if x[1]]
            return bool(bad), (str(bad) if bad else 'ok')
        if kind == 'constructible':
            s = (None if inp['a'] is None else tuple(inp['a']), None if inp['w'] is None else tuple(inp['w']), inp['cp'], inp['ed'], inp['sk'])
            e, st = constructible(q, s, concrete_ints, False), constructible(q, s, concrete_ints, True)
            return e != st, f'enum-valued constructible={e}, string-valued constructible={st}'
    except Exception as e:
        return True, 'replay raised ' + describe(e)
    return False, f'unknown replay kind {kind!r}'

def confirm(inp, m):
    fails, obs = run_case(inp, m)
    return dict(confirmed=bool(fails), inputs=inp, observed=obs)

def in_class(k, flat):
    """class predicate of a listed finding: dict flat-key -> value; absent = the whole obligation is the class"""
    pred = k.get('class')
    if not pred: return True
    return all(a in flat and flat[a] == b for a, b in pred.items())

# ------------------------------------------------------------------------------------------------ families
def family_records(m, fns, q=None, only=None):
    """families A, B, C on module `q` (the real qtyping, or a mutant for the canaries).  Returns list of (id, status, detail)."""
    q = q or m.q; res = []; t_all = time.time()
    for spec in tensor_specs(q):
        oid = PFX_T + tkey(spec)
        if only is not None and oid not in only: continue
        t0 = time.time(); backend = 'exhaustive-native-opaque'
        try: f = check_tensor_skeleton(q, spec, opaque_ints)
        except Inspected as e:
            backend = 'exhaustive-native'; f = ('opaque', f'integer inspected ({e}); parametricity argument not applicable')
        inp = dict(kind='tensor_config', config=enc_tensor(spec, 't', concrete_ints))
        res.append((oid, fns['T.from_dict'], backend, f, inp, time.time() - t0, 'from_dict(json(to_dict(c))) == c for TensorQuantizationConfig skeleton ' + tkey(spec)))
    n_constructible = n_rejected = 0; mismatch = None
    for s in op_skeletons(q):
        try:
            ce, cs = constructible(q, s, opaque_ints, False), constructible(q, s, opaque_ints, True)
        except Inspected as e:
            ce = cs = False; mismatch = mismatch or (s, f'integer inspected by __post_init__: {e}')
        if ce != cs and mismatch is None: mismatch = (s, f'enum-valued constructible={ce}, string-valued constructible={cs}')
        if not ce: n_rejected += 1; continue
        n_constructible += 1
        oid = PFX_O + okey(s)
        if only is not None and oid not in only: continue
        t0 = time.time(); backend = 'exhaustive-native-opaque'
        try: f = check_op_skeleton(q, s, opaque_ints)
        except Inspected as e:
            backend = 'exhaustive-native'; f = ('opaque', f'integer inspected ({e}); parametricity argument not applicable')
        inp = dict(kind='op_config', config=enc_op(s))
        res.append((oid, fns['O.from_dict'], backend, f, inp, time.time() - t0, 'from_dict(json(to_dict(c))) == c (enum- and string-valued) for OpQuantizationConfig skeleton ' + okey(s)))
    if only is None:
        oid = 'C12/qtyping.OpQuantizationConfig.__post_init__/constructible-same-for-enum-and-str'
        f = None; inp = {}
        if mismatch:
            s, txt = mismatch; f = ('str', txt); inp = dict(kind='constructible', a=s[0], w=s[1], cp=s[2], ed=s[3], sk=s[4])
        res.append((oid, fns['O.__post_init__'], 'exhaustive-native-opaque', f, inp, time.time() - t_all, f'__post_init__ accepts the same {n_constructible} of {n_constructible + n_rejected} skeletons whether enum fields are enums or strings'))
    return res, n_constructible, n_rejected

def family_rules(m, fns, rmmod=None, only=None):
    """family D: single '*' rule x algorithm x every constructible skeleton, opaque integers"""
    q = m.q; mm = Mods(q, rmmod or m.rm, m.am); res = []
    star = q.TFLOperationName.ALL_SUPPORTED
    groups = {}
    for s in op_skeletons(q):
        if not constructible(q, s, opaque_ints, False): continue
        for alg in ALGS:
            gid = PFX_R + f'alg={alg}.w={"None" if s[1] is None else "set"}.a={"None" if s[0] is None else "set"}'
            groups.setdefault(gid, []).append((s, alg))
    for gid in sorted(groups):
        if only is not None and gid not in only: continue
        t0 = time.time(); fails = []; backend = 'exhaustive-native-opaque'
        for (s, alg) in groups[gid]:
            for as_str in (False, True):
                try: f = check_rule(mm, '.*', '*' if as_str else star, alg if as_str else m.am.AlgorithmName(alg), mk_op(q, s, opaque_ints, as_str))
                except Inspected as e: backend = 'exhaustive-native'; f = f'integer inspected ({e}); parametricity argument not applicable'
                if f: fails.append((s, alg, f)); break
        res.append((gid, fns['RM.load'], backend, fails, len(groups[gid]), time.time() - t0))
    return res

# ------------------------------------------------------------------------------------------------ bounded stand-in: histories
def history_alphabet(m):
    q = m.q; T, O = q.TensorQuantizationConfig, q.OpQuantizationConfig; G, D, P = q.QuantGranularity, q.TensorDataType, q.ComputePrecision
    cfgs = [
        ('srq_a8w8', O(T(8, False), T(8, True, G.CHANNELWISE), P.INTEGER)),
        ('drq_w8', O(None, T(8, True, G.CHANNELWISE), P.INTEGER)),
        ('wo_w4', O(None, T(4, False, G.CHANNELWISE), P.FLOAT, True)),
        ('fp16', O(None, T(16, True, G.TENSORWISE, D.FLOAT), P.FLOAT)),
        ('default', O()),
        ('skip_act_only', O(T(8, True), None, P.INTEGER, False, True)),
        ('skip_block', O(None, T(4, True, G.BLOCKWISE, D.INT, 32), P.FLOAT, True, True)),
    ]
    N = q.TFLOperationName
    regexes = ['.*', 'dense', 'conv.*']
    ops = [N.ALL_SUPPORTED, N.FULLY_CONNECTED, N.CONV_2D, N.ADD]
    algs = [m.am.AlgorithmName(a) for a in ALGS]
    rules = [(r, o, a, c, cn) for r in regexes for o in ops for a in algs for (cn, c) in cfgs]
    probes = [(o, s) for o in (N.FULLY_CONNECTED, N.CONV_2D, N.ADD, N.SOFTMAX) for s in ('dense/out;', 'conv1/out;', 'other;')]
    return rules, probes

def explained_by_rule_classes(q, recipe_json, dflt):
    """does the final recipe contain a record of one of the two per-rule classes that family D already reports?"""
    for r in recipe_json:
        oc = r.get('op_config', {})
        if r['algorithm_key'] != 'no_quantize' and 'weight_tensor_config' not in oc: return 'weight-none'
        if r['algorithm_key'] == 'no_quantize' and oc != dflt: return 'no-quantize-config-dropped'
    return None

_HIST = {}
def _hist_worker(i):
    m, seqs, probes, dflt = _HIST['m'], _HIST['seqs'], _HIST['probes'], _HIST['dflt']
    lo, hi = _HIST['chunks'][i]; cnt = {}; first_clean_fail = None
    for k in range(lo, hi):
        rules = seqs[k]; info = {}
        try: f = check_history(m, [(r, o, a, c) for (r, o, a, c, _) in rules], probes, info)
        except Exception as e: f = 'harness: ' + describe(e)
        cls = explained_by_rule_classes(m.q, info.get('recipe', []), dflt) or 'clean'
        c = cnt.setdefault(cls, [0, 0]); c[0] += 1
        if f:
            c[1] += 1
            if cls == 'clean' and first_clean_fail is None: first_clean_fail = (k, f[:600])
    return (cnt, first_clean_fail)

def bounded_histories(rep, m, fns, tier):
    """histories of update calls with concrete integers.  A history is 'clean' when its FINAL recipe contains no record of the two per-rule
    defect classes that the rule-roundtrip obligations decide (weight None under a quantizing algorithm; no_quantize with a non-default
    config); clean histories must all round-trip, the others are counted separately for information."""
    rules, probes = history_alphabet(m); N = m.q.TFLOperationName
    small = [x for x in rules if x[0] in ('.*', 'dense') and x[1] in (N.ALL_SUPPORTED, N.FULLY_CONNECTED) and x[4] in ('srq_a8w8', 'wo_w4', 'fp16', 'default')]
    seqs = [(x,) for x in rules] + [(x, y) for x in rules for y in rules]
    seqs += [(x, y, z) for x in small for y in small for z in small] if tier == 'thorough' else [(x, y, z) for x in small[::2] for y in small for z in small[1::2]]
    n = len(seqs); nchunk = 64; step = (n + nchunk - 1) // nchunk
    _HIST.update(m=m, seqs=seqs, probes=probes, dflt=default_cfg_json(m.q), chunks=[(i, min(n, i + step)) for i in range(0, n, step)])
    res = core.run_pool(_hist_worker, len(_HIST['chunks']))
    tot = {}; first = None
    for cnt, fcf in res:
        for k, (a, b) in cnt.items():
            t = tot.setdefault(k, [0, 0]); t[0] += a; t[1] += b
        if fcf and (first is None or fcf[0] < first[0]): first = fcf
    scope = (f'all histories of 1 and 2 update calls over an alphabet of {len(rules)} rules (3 regexes x 4 selectors incl. * x 3 algorithms x 7 configs incl. skip_checks/default/blockwise), '
             f'{"all" if tier == "thorough" else "a quarter of the"} histories of 3 calls over a reduced alphabet of {len(small)} rules; rejected updates (ValueError) leave the manager unchanged; '
             f'compared: recipe before/after JSON, rule view, and resolution of {len(probes)} (op, scope) probes')
    clean = tot.get('clean', [0, 0])
    rep.add_bounded('RecipeManager add* -> get -> json -> load(fresh) -> get / get_quantization_configs [histories whose final recipe is outside the per-rule defect classes]',
                    scope, clean[0], clean[1], 'must be 0 failures')
    for cls in sorted(k for k in tot if k != 'clean'):
        rep.add_bounded(f'same, histories whose final recipe contains a record of class {cls}', scope, tot[cls][0], tot[cls][1],
                        'informational: this class is decided per rule by the rule-roundtrip obligations (refuted there or listed as a known finding)')
    if first:
        k, f = first
        inp = dict(kind='rules', rules=[dict(regex=r, operation=str(o.value), algorithm_key=str(a.value), op_config=enc_cfg_obj(c)) for (r, o, a, c, _) in seqs[k]],
                   probes=[[str(o.value), s] for (o, s) in probes])
        ob = core.Ob('C12/recipe_manager.RecipeManager.load_quantization_recipe/history-roundtrip', fns['RM.load'], 'bounded-native', core.REFUTED, 0.0, detail=f,
                     clause='view(load(json(get(rm)))) == view(rm) and identical resolution, for histories whose final recipe is outside the per-rule defect classes')
        ob.replay = confirm(inp, m); rep.add(ob)
    return sum(t[0] for t in tot.values()), tot

# ------------------------------------------------------------------------------------------------ canaries
CANARIES_Q = [
    ('qtyping.to_dict keeps None values (filter dropped)', "if v is not None and not (isinstance(v, dict) and not v)", 'if True', 'w=INT-sym-TENSORWISE.a=None.'),
    ('qtyping.OpQuantizationConfig.from_dict drops the activation config', "    if 'activation_tensor_config' in params_copy:\n",
     "    params_copy.pop('activation_tensor_config', None)\n    if 'activation_tensor_config' in params_copy:\n", 'w=INT-sym-TENSORWISE.a=INT-sym-TENSORWISE.'),
    ('qtyping.TensorQuantizationConfig.from_dict forgets block_size', '    params_copy = copy.deepcopy(params)\n    return cls(**params_copy)',
     "    params_copy = copy.deepcopy(params)\n    params_copy.pop('block_size', None)\n    return cls(**params_copy)", 'w=INT-sym-BLOCKWISE.a=None.'),
]
CANARIES_RM = [
    ('recipe_manager.get_quantization_recipe writes a constant algorithm key', "config['algorithm_key'] = quant_config.algorithm_key", "config['algorithm_key'] = 'min_max_uniform_quantize'",
     'alg=float_casting.w=set.a=None'),
    ('recipe_manager.load_quantization_recipe swaps regex and operation', "          config['regex'],\n          config['operation'],", "          config['operation'],\n          config['regex'],",
     'alg=min_max_uniform_quantize.w=set.a=set'),
]

def run_canaries(rep, m, fns, base_status):
    src = core.read_source(QT)
    for name, a, b, sel in CANARIES_Q:
        if a not in src: rep.canary(name, False, 'mutation site not found (stale canary)'); continue
        only = {oid for oid, st in base_status.items() if oid.startswith(PFX_O) and sel in oid and st == core.PROVED}
        if not only: rep.canary(name, False, f'no obligation proved on the real source matches {sel}'); continue
        try:
            qm = load_qtyping(src.replace(a, b)); res, _, _ = family_records(m, fns, q=qm, only=only)
        except Exception as e:
            rep.canary(name, True, f'mutant rejected while executing: {describe(e)}'); continue
        bad = [(oid, f[1][:80]) for (oid, _, _, f, *_r) in res if f]
        rep.canary(name, bool(res) and bool(bad), f'{len(bad)} of {len(res)} obligations proved on the real source fail on the mutant; e.g. {bad[:1]}')
    src = core.read_source(RM)
    for name, a, b, sel in CANARIES_RM:
        if a not in src: rep.canary(name, False, 'mutation site not found (stale canary)'); continue
        only = {oid for oid, st in base_status.items() if oid.startswith(PFX_R) and oid.endswith(sel) and st == core.PROVED}
        if not only: rep.canary(name, False, f'no obligation proved on the real source matches {sel}'); continue
        try:
            rmm = load_recipe_manager(src.replace(a, b)); res = family_rules(m, fns, rmmod=rmm, only=only)
        except Exception as e:
            rep.canary(name, True, f'mutant rejected while executing: {describe(e)}'); continue
        bad = [(gid, fails[0][2][:80]) for (gid, _, _, fails, *_r) in res if fails]
        rep.canary(name, bool(res) and bool(bad), f'{len(bad)} of {len(res)} obligations proved on the real source fail on the mutant; e.g. {bad[:1]}')

# ------------------------------------------------------------------------------------------------ run
def run(rep):
    m = load_all(); q = m.q
    fns = {'T.to_dict': rep.fn(core.Fn(QT, 'TensorQuantizationConfig.to_dict')), 'T.from_dict': rep.fn(core.Fn(QT, 'TensorQuantizationConfig.from_dict')),
           'O.__post_init__': rep.fn(core.Fn(QT, 'OpQuantizationConfig.__post_init__')), 'O.to_dict': rep.fn(core.Fn(QT, 'OpQuantizationConfig.to_dict')),
           'O.from_dict': rep.fn(core.Fn(QT, 'OpQuantizationConfig.from_dict')),
           'RM.add': rep.fn(core.Fn(RM, 'RecipeManager.add_quantization_config')), 'RM.get': rep.fn(core.Fn(RM, 'RecipeManager.get_quantization_recipe')),
           'RM.load': rep.fn(core.Fn(RM, 'RecipeManager.load_quantization_recipe')), 'RM.resolve': rep.fn(core.Fn(RM, 'RecipeManager.get_quantization_configs'))}
    rep.trust('CPython executes the real functions; dataclasses.asdict, copy.deepcopy, dataclass __init__/__eq__ and enum are the real library code, not models')
    rep.trust('json.dumps/json.loads map every Python int to itself independently of its value: opaque integers travel through the REAL json module as '
              'distinct sentinel integers and are mapped back (str-enums, bool, None, str, dict, list go through json unmodified by the harness)')
    rep.trust('parametricity: an execution in which no opaque integer is inspected (any comparison with a non-opaque value, arithmetic, truth test, '
              'conversion or indexing raises) behaves identically for every integer value of num_bits / block_size')
    rep.assume('"quantizes the same model to byte-identical output" is the lemma equal view => equal resolution (C11) plus determinism of quantize (C14); '
               'it is stated, not re-proved here')
    rep.assume('num_bits and block_size are Python ints (JSON numbers without fraction); other field types are the ones of the skeleton')
    rep.extra['exhaustive'] = True
    kf_seen = {}
    def settle(oid, fn, backend, fails, dt, clause, ncases=1):
        """registers one obligation from the list of its failing cases [(recorded input, failure text)].  Cases inside the class of a listed
        finding (and still failing when re-executed natively) print KNOWN-FINDING instead; every other failing case is still reported."""
        if not fails:
            rep.add(core.Ob(oid, fn, backend, core.PROVED, dt, clause=clause)); return core.PROVED
        if any('parametricity argument not applicable' in t for _, t in fails):
            rep.add(core.Ob(oid, fn, backend, core.UNKNOWN, dt, detail=fails[0][1], clause=clause)); return core.UNKNOWN
        k = rep.finding_for(oid); rest = fails
        if k is not None:
            rest = []
            for inp, txt in fails:
                if in_class(k, flat_inputs(inp)):
                    ent = kf_seen.setdefault(k['id'], [k, 0, None])
                    if ent[2] is None: ent[2] = confirm(inp, m)          # the witness of the class is re-executed natively
                    if ent[2]['confirmed']: ent[1] += 1; continue
                rest.append((inp, txt))
            if not rest: return 'known'
            oid = oid + '[excluding:' + k['id'] + ']'; backend += '+class-exclusion'
        inp, txt = rest[0]
        detail = txt if ncases == 1 else f'{len(rest)} of {ncases} cases fail; first: {txt}'
        ob = core.Ob(oid, fn, backend, core.REFUTED, dt, detail=detail, clause=clause); ob.replay = confirm(inp, m); rep.add(ob); return core.REFUTED

    base_status = {}
    # ---- A, B, C
    res, n_con, n_rej = family_records(m, fns)
    for (oid, fn, backend, f, inp, dt, clause) in res: base_status[oid] = settle(oid, fn, backend, [(inp, f[1])] if f else [], dt, clause)
    # ---- D
    resd = family_rules(m, fns); n_rule_cases = 0
    for (gid, fn, backend, fails, ncases, dt) in resd:
        n_rule_cases += ncases * 2
        clause = f"single rule ('.*', '*', <alg>) with {gid[len(PFX_R):]}: view(load(json(get(rm)))) == view(rm) over {ncases} config skeletons x enum/str"
        fl = [(dict(kind='rules', rules=[dict(regex='.*', operation='*', algorithm_key=alg, op_config=enc_op(s))]), txt) for (s, alg, txt) in fails]
        base_status[gid] = settle(gid, fn, backend, fl, dt, clause, ncases)
    # ---- E: shipped recipe files (directory listing of the working tree, every run) and the recipe shipped as code
    files = recipe_files()
    for name in files:
        t0 = time.time(); f = check_file(m, name, 'loads'); oid = PFX_F + name + '.loads'
        base_status[oid] = settle(oid, fns['RM.load'], 'exhaustive-native', [(dict(kind='file', file=name, clause='loads'), f)] if f else [], time.time() - t0,
                                  f'recipes/{name} loads into a fresh RecipeManager (real json)')
        if f or not is_default_recipe(name): continue       # a file that does not load has no re-export to compare (reported above)
        t0 = time.time(); f = check_file(m, name, 're-exports-to-itself'); oid = PFX_F + name + '.re-exports-to-itself'
        base_status[oid] = settle(oid, fns['RM.get'], 'exhaustive-native', [(dict(kind='file', file=name, clause='re-exports-to-itself'), f)] if f else [], time.time() - t0,
                                  f'json(get_quantization_recipe()) after loading recipes/{name} equals the file content')
    t0 = time.time(); rp_res = check_recipe_py(m)
    bad = [x for x in rp_res if x[1]]
    settle('C12/recipe_manager.RecipeManager.load_quantization_recipe/recipe-py.loads-and-re-exports', fns['RM.load'], 'exhaustive-native', [(dict(kind='recipe_py'), str(bad))] if bad else [],
           time.time() - t0, f'every recipe function in recipe.py ({[x[0] for x in rp_res]}) loads, re-exports to itself and equals its JSON twin')
    for kid, (k, n, rp) in kf_seen.items():
        if n: rep.known_finding(k, True); rep.notes.append(f'known finding {kid}: {n} failing case(s) inside its class; witness re-executed natively: {str(rp.get("observed"))[:160]}')
    for k in rep.active_findings():
        if not kf_seen.get(k['id'], [0, 0])[1]:
            w = k.get('witness')
            if isinstance(w, dict) and w.get('kind'): rep.known_finding(k, run_case(w, m)[0])
            else: rep.known_finding(k, False)
    # ---- bounded histories with concrete integers (resolution inspects integers, so not opaque)
    cases, by = bounded_histories(rep, m, fns, rep.tier)
    # ---- concrete cross-check of the opaque harness: same skeletons, concrete integers, json end to end
    cc = cf = 0
    for s in op_skeletons(q):
        if not constructible(q, s, concrete_ints, False): continue
        cc += 1; f = check_op_skeleton(q, s, concrete_ints)
        opaque_failed = base_status.get(PFX_O + okey(s)) in (core.REFUTED, 'known')
        if (f is not None) != opaque_failed: cf += 1
    rep.add_bounded('OpQuantizationConfig round trip with concrete integers (harness cross-check)', 'all constructible skeletons, num_bits/block_size = 16/3 (activation), 4/32 (weight)', cc, cf,
                    'failures = disagreements with the opaque-integer verdicts')
    if cf: rep.errors.append(f'opaque-integer harness disagrees with the concrete run on {cf} skeletons')
    # ---- vacuity guards
    rep.cover('constructible skeletons enumerated', n_con > 0 and n_rej > 0)
    rep.cover('some skeleton with activation None and weight set round-trips', any(st == core.PROVED for oid, st in base_status.items() if oid.startswith(PFX_O) and '.a=None.' in oid and 'w=None' not in oid))
    rep.cover('recipe files found', len(files) > 0)
    rep.cover('histories executed', cases > 0)
    rep.extra.update(skeleton=dict(tensor_shapes=len(tensor_specs(q)), op_shapes_constructible=n_con, op_shapes_rejected_at_construction=n_rej,
                                   representations=['enum', 'str'], rule_roundtrip_cases=n_rule_cases, recipe_files=files),
                     method='exhaustive native execution of the real functions over the finite skeleton with opaque integers (complete by parametricity); '
                            'recipe files enumerated from the directory listing; histories bounded')
    # ---- canaries
    run_canaries(rep, m, fns, base_status)

def flat_inputs(inp):
    """flat view of a recorded input for class predicates of listed findings, e.g. {'weight': None} or {'algorithm_key': 'no_quantize'}"""
    out = {}
    if not inp: return out
    cfg = inp.get('config')
    if inp.get('kind') == 'rules' and len(inp['rules']) == 1:
        r = inp['rules'][0]; out.update(regex=r['regex'], operation=r['operation'], algorithm_key=r['algorithm_key']); cfg = r['op_config']
    if inp.get('kind') == 'file': out['file'] = inp['file']
    if isinstance(cfg, dict):
        for k2, v in cfg.items():
            if isinstance(v, dict):
                out[k2] = 'set'
                for k3, v3 in v.items(): out[f'{k2}.{k3}'] = v3
            else: out[k2] = v
    return out

def replay(payload):
    inp = payload.get('inputs') or {}
    print('replaying', payload.get('obligation'), json.dumps(inp)[:600])
    fails, obs = run_case(inp)
    print('observed:', obs)
    return 1 if fails else 0
