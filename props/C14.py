"""C14 — quantize/calibrate are pure: no input mutation, no history dependence.

Technique: contract-based verification with frame (`modifies`) and `reads` clauses on the real functions, decided by the
conservative interprocedural may-mutate-a-parameter analysis of vlib/effects.py over the REAL source (re-read on every run).

Obligations
  frame.<param>        caller-owned parameter of a public entry point is in no `modifies` set along the call tree
  self-frame           Quantizer.quantize modifies self._result only; calibrate / validate modify nothing of self
  ownership.*          ModelModifier.modify_model hands a fresh deep copy of the parsed model to the generator / performer
  history              the call tree writes no module-level state and calls no registration function at run time
  fresh.<Class>        Calibrator / ParamsGenerator / ModelModifier are constructed inside the API call, never cached on self
  set-iter.<n>         every iteration over a set on the call tree of Quantizer.quantize ranges over ints (CPython: hash seed
                       independent) or has an order-insensitive body (criterion: effects.SetSites.body_order_free)
Refuted frame obligations are replayed natively (real API, fixture model, deep before/after comparison of the argument).

Known findings (known_findings.json, property C14) are honoured like in C17: a listed obligation whose witness still fails
natively prints KNOWN-FINDING and is re-decided with EXACTLY the listed leaf stores excluded, e.g.
  {"id": "...", "property": "C14", "status": "known", "what": "...", "obligations": ["C14/quantizer.Quantizer.quantize/frame.calibration_result", ...],
   "leaf_stores": [{"file": "algorithms/utils/min_max_quantize_utils.py", "function": "<qualname>", "text": "<statement text as printed in the replay file>"}]}
so a NEW store path to the same parameter is still a violation."""
import os
import copy, dataclasses, hashlib, json, os, sys, time
from vlib import core, effects

LEVEL = 'proof'
BACKEND = 'frame-analysis'
Q, PG, CAL, MM, MV, TIU = 'quantizer.py', 'params_generator.py', 'calibrator.py', 'model_modifier.py', 'model_validator.py', 'utils/tfl_interpreter_utils.py'
# public entry points and their caller-owned parameters (checked against the real signatures on every run)
ENTRIES = [
    (Q, 'Quantizer.__init__', ['float_model', 'quantization_recipe']),
    (Q, 'Quantizer.load_quantization_recipe', ['recipe']),
    (Q, 'Quantizer.update_quantization_recipe', ['regex', 'operation_name', 'op_config', 'algorithm_key']),
    (Q, 'Quantizer.calibrate', ['calibration_data', 'signature_key', 'previous_calibration_result']),
    (Q, 'Quantizer.quantize', ['calibration_result']),
    (Q, 'Quantizer.validate', ['test_data', 'error_metrics']),
    (PG, 'ParamsGenerator.__init__', ['float_tflite']),
    (PG, 'ParamsGenerator.generate_quantization_parameters', ['model_recipe_manager', 'model_qsvs']),
    (CAL, 'Calibrator.__init__', ['float_tflite']),
    (CAL, 'Calibrator.calibrate', ['calibration_dataset', 'model_recipe_manager', 'signature_key']),
    (CAL, 'Calibrator.load_model_qsvs', ['model_qsvs']),
    (MM, 'ModelModifier.__init__', ['float_tflite']),
    (MM, 'ModelModifier.modify_model', ['params']),
    (MV, 'compare_model', ['reference_model', 'target_model', 'test_data']),
    (TIU, 'invoke_interpreter_signature', ['signature_input_data']),
]
SELF_FRAMES = [(Q, 'Quantizer.quantize', {'_result'}), (Q, 'Quantizer.calibrate', set()), (Q, 'Quantizer.validate', set())]
HISTORY = [(Q, n) for n in ('Quantizer.__init__', 'Quantizer.load_quantization_recipe', 'Quantizer.update_quantization_recipe', 'Quantizer.get_quantization_recipe',
                            'Quantizer.calibrate', 'Quantizer.quantize', 'Quantizer.validate')]
FRESH = [(Q, 'Quantizer.calibrate', 'Calibrator'), (Q, 'Quantizer._get_quantization_params', 'ParamsGenerator'), (Q, 'Quantizer._get_quantized_model', 'ModelModifier')]
HANDOFF = [(MM, 'ModelModifier.modify_model', 'transform_graph', 1), (MM, 'ModelModifier.modify_model', 'quant_params_to_transformation_insts', 1)]
SET_ROOT = (Q, 'Quantizer.quantize')

def modname(rel): return rel[:-3].replace('/', '.')
def oid(rel, qual, what): return f'C14/{modname(rel)}.{qual}/{what}'

# ------------------------------------------------------------------------------------------------ deep comparison (native replays)
def deep_diff(a, b, path='', out=None, limit=12):
    """paths at which a and b differ (numpy arrays by dtype/shape/content, dataclasses and plain objects by fields)"""
    import numpy as np
    if out is None: out = []
    if len(out) >= limit: return out
    if type(a) is not type(b): out.append(f'{path or "<root>"}: type {type(a).__name__} -> {type(b).__name__}'); return out
    if isinstance(a, np.ndarray):
        if a.dtype != b.dtype or a.shape != b.shape or not np.array_equal(a, b, equal_nan=a.dtype.kind in 'fc'):
            out.append(f'{path or "<root>"}: array {a.dtype}{list(a.shape)} {np.ravel(a)[:3].tolist()} -> {b.dtype}{list(b.shape)} {np.ravel(b)[:3].tolist()}')
    elif isinstance(a, dict):
        for k in list(a.keys()) + [k for k in b.keys() if k not in a]:
            if k not in a: out.append(f'{path}[{k!r}]: key added')
            elif k not in b: out.append(f'{path}[{k!r}]: key removed')
            else: deep_diff(a[k], b[k], f'{path}[{k!r}]', out, limit)
        if list(a.keys()) != list(b.keys()) and set(a.keys()) == set(b.keys()): out.append(f'{path or "<root>"}: key order changed')
    elif isinstance(a, (list, tuple)):
        if len(a) != len(b): out.append(f'{path or "<root>"}: length {len(a)} -> {len(b)}')
        for i, (x, y) in enumerate(zip(a, b)): deep_diff(x, y, f'{path}[{i}]', out, limit)
    elif isinstance(a, (set, frozenset, bytes, bytearray, str, int, float, bool, type(None), complex)) or isinstance(a, np.generic):
        same = (a == b) or (isinstance(a, float) and a != a and b != b)
        if not same: out.append(f'{path or "<root>"}: {str(a)[:40]} -> {str(b)[:40]}')
    elif dataclasses.is_dataclass(a):
        for f in dataclasses.fields(a): deep_diff(getattr(a, f.name), getattr(b, f.name), f'{path}.{f.name}', out, limit)
    elif hasattr(a, '__dict__'):
        deep_diff(vars(a), vars(b), path + '.__dict__', out, limit)
    else:
        try:
            if not (a == b): out.append(f'{path or "<root>"}: {str(a)[:40]} -> {str(b)[:40]}')
        except Exception: pass
    return out

_SCEN = {}
def scenario(model='conv_fc_mnist.tflite', recipe='default_a8w8_recipe.json'):
    """Runs the real public API once on a fixture model and compares every caller-owned argument before/after its call.
    -> {'<qual>(<param>)': [diff paths]}  (empty list = unchanged) plus '_inputs' / '_errors'.  Imports tensorflow (slow)."""
    key = (model, recipe)
    if key in _SCEN: return _SCEN[key]
    import numpy as np
    from ai_edge_quantizer import quantizer, calibrator, params_generator, model_modifier, model_validator, recipe_manager, qtyping
    from ai_edge_quantizer.utils import test_utils, tfl_interpreter_utils, validation_utils, tfl_flatbuffer_utils
    res = {'_inputs': dict(model=f'ai_edge_quantizer/tests/models/{model}', recipe=f'ai_edge_quantizer/recipes/{recipe}', calibration_samples=2, seed=666), '_errors': []}
    mpath = os.path.join(core.PKG, 'tests', 'models', model); rpath = os.path.join(core.PKG, 'recipes', recipe)
    with open(mpath, 'rb') as f: model_bytes = bytearray(f.read())
    with open(rpath) as f: recipe_json = json.load(f)
    def watch(label, args, fn):
        """args: {param: object}; runs fn() and records which of the objects changed"""
        before = {p: copy.deepcopy(o) for p, o in args.items()}
        try: out = fn()
        except Exception as e:
            res['_errors'].append(f'{label}: {type(e).__name__}: {str(e)[:120]}'); out = None
        for p, o in args.items(): res[f'{label}({p})'] = deep_diff(before[p], o)
        return out
    data = test_utils.create_random_normal_input_data(mpath, num_samples=2)
    sig = sorted(data.keys())[0]; samples = data[sig]
    q = watch('Quantizer.__init__', dict(float_model=model_bytes, quantization_recipe=recipe_json), lambda: quantizer.Quantizer(model_bytes, recipe_json))
    watch('Quantizer.load_quantization_recipe', dict(recipe=recipe_json), lambda: q.load_quantization_recipe(recipe_json))
    cfg = qtyping.OpQuantizationConfig(activation_tensor_config=qtyping.TensorQuantizationConfig(num_bits=8, symmetric=False),
                                       weight_tensor_config=qtyping.TensorQuantizationConfig(num_bits=8, symmetric=True), compute_precision=qtyping.ComputePrecision.INTEGER)
    upd = dict(regex='.*', operation_name=qtyping.TFLOperationName.FULLY_CONNECTED, op_config=cfg, algorithm_key='min_max_uniform_quantize')
    watch('Quantizer.update_quantization_recipe', upd, lambda: q.update_quantization_recipe(**upd))
    cal1 = watch('Quantizer.calibrate', dict(calibration_data=samples, signature_key=sig), lambda: q.calibrate(samples, signature_key=sig))
    snap = copy.deepcopy(cal1)          # pristine calibration result for the lower entry points (the in-place rewrites are idempotent)
    cal2 = watch('Quantizer.calibrate', dict(calibration_data=samples, previous_calibration_result=cal1), lambda: q.calibrate(samples, previous_calibration_result=cal1))
    cal = cal2 if cal2 is not None else cal1
    watch('Quantizer.quantize', dict(calibration_result=cal), lambda: q.quantize(cal))
    tdata = {sig: samples}
    watch('Quantizer.validate', dict(test_data=tdata, error_metrics='mse'), lambda: q.validate(tdata, 'mse'))
    # lower entry points, fresh objects, fresh calibration result
    calib = watch('Calibrator.__init__', dict(float_tflite=model_bytes), lambda: calibrator.Calibrator(model_bytes))
    rm = recipe_manager.RecipeManager(); rm.load_quantization_recipe(recipe_json)
    rm_view = lambda: rm.get_quantization_recipe()
    if calib is not None and cal1 is not None:
        prev = copy.deepcopy(snap)
        watch('Calibrator.load_model_qsvs', dict(model_qsvs=prev), lambda: (calib.load_model_qsvs(prev), calib.calibrate(samples, rm, sig)))
        rb = rm_view(); watch('Calibrator.calibrate', dict(calibration_dataset=samples, signature_key=sig), lambda: calib.calibrate(samples, rm, sig))
        res['Calibrator.calibrate(model_recipe_manager)'] = deep_diff(rb, rm_view())
    pg = watch('ParamsGenerator.__init__', dict(float_tflite=model_bytes), lambda: params_generator.ParamsGenerator(model_bytes))
    params = None
    if pg is not None and cal1 is not None:
        qsvs = copy.deepcopy(snap); rb = rm_view()
        params = watch('ParamsGenerator.generate_quantization_parameters', dict(model_qsvs=qsvs), lambda: pg.generate_quantization_parameters(rm, qsvs))
        res['ParamsGenerator.generate_quantization_parameters(model_recipe_manager)'] = deep_diff(rb, rm_view())
    mm = watch('ModelModifier.__init__', dict(float_tflite=model_bytes), lambda: model_modifier.ModelModifier(model_bytes))
    qm = None
    if mm is not None and params is not None:
        qm = watch('ModelModifier.modify_model', dict(params=params), lambda: mm.modify_model(params))
    if qm is not None:
        ref, tgt = bytes(model_bytes), bytearray(qm)
        watch('compare_model', dict(reference_model=ref, target_model=tgt, test_data=tdata),
              lambda: model_validator.compare_model(ref, tgt, tdata, 'mse', validation_utils.get_validation_func('mse')))
    interp = tfl_interpreter_utils.create_tfl_interpreter(bytes(model_bytes))
    one = samples[0]
    watch('invoke_interpreter_signature', dict(signature_input_data=one), lambda: tfl_interpreter_utils.invoke_interpreter_signature(interp, one, sig))
    _SCEN[key] = res
    return res

def native_replay(qual, param):
    """-> dict(confirmed, inputs, observed) for one (entry point, parameter)"""
    try: sc = scenario()
    except Exception as e:
        return dict(confirmed=False, inputs={}, observed=f'native scenario could not run: {type(e).__name__}: {str(e)[:200]}')
    k = f'{qual}({param})'
    if k not in sc: return dict(confirmed=False, inputs=sc['_inputs'], observed=f'scenario does not exercise {k}', errors=sc['_errors'])
    return dict(confirmed=bool(sc[k]), inputs=dict(sc['_inputs'], call=k), observed=sc[k] or 'argument compares equal before and after the call', errors=sc['_errors'])

# ------------------------------------------------------------------------------------------------ deciding obligations
def leaf_records(evs):
    seen = {};
    for e in evs: seen.setdefault((e.leaf['file'], e.leaf['fn'], e.leaf['text']), e)
    return [dict(file=k[0], function=k[1], text=k[2], line=e.leaf['line'], kind=e.leaf['kind'], chain=e.chain()) for k, e in sorted(seen.items(), key=lambda kv: (kv[0][0], kv[1].leaf['line']))]

def decide_frame(A, key, param):
    """-> (status, detail, leaf records)"""
    evs = A.events_for(key, param); unk = A.events_for(key, param, True)
    if evs:
        recs = leaf_records(evs)
        return core.REFUTED, '\n'.join(r['chain'] for r in recs), recs
    if unk:
        recs = leaf_records(unk)
        return core.UNKNOWN, 'reaches an unresolved call: ' + '\n'.join(r['chain'] for r in recs), recs
    return core.PROVED, '', []

def frame_obligations(A, fns, entries=ENTRIES):
    obs = []; errors = []
    for rel, qual, params in entries:
        key = (rel, qual); fi = A.prog.fns.get(key)
        if fi is None: errors.append(f'entry point {rel}:{qual} not found'); continue
        for p in params:
            if p not in fi.all_params: errors.append(f'{qual} has no parameter `{p}` any more (signature changed: update ENTRIES)'); continue
            t0 = time.time(); st, detail, recs = decide_frame(A, key, p)
            ob = core.Ob(oid(rel, qual, f'frame.{p}'), fns.get(key), BACKEND, st, time.time() - t0, detail=detail,
                         clause=f'modifies({qual}) does not contain anything reachable from argument `{p}` (every heap store / mutating call on the call tree)')
            ob.leafs = recs; ob.entry = (rel, qual, p); obs.append(ob)
    return obs, errors

def other_obligations(A, fns):
    obs = []
    for rel, qual, allowed in SELF_FRAMES:
        key = (rel, qual); se = A.self_events(key); su = A.self_events(key, True)
        bad = {f: v for f, v in se.items() if f not in allowed}
        st = core.REFUTED if bad else core.UNKNOWN if su else core.PROVED
        detail = '\n'.join(f'self.{f}: ' + leaf_records(v)[0]['chain'] for f, v in sorted(bad.items())) or '; '.join(f'self.{f}: unresolved call' for f in su)
        obs.append(core.Ob(oid(rel, qual, 'self-frame'), fns.get(key), BACKEND, st, 0.0, detail=detail,
                           clause=f'modifies({qual}) restricted to self is {{{", ".join("self." + a for a in sorted(allowed)) or "nothing"}}}'))
    for rel, qual, callee, pos in HANDOFF:
        ok, detail = effects.deepcopy_handoff(A.prog, (rel, qual), callee, pos)
        obs.append(core.Ob(oid(rel, qual, f'ownership.deepcopy-handoff.{callee}'), fns.get((rel, qual)), 'syntactic-dataflow', core.PROVED if ok else core.REFUTED, 0.0, detail=detail,
                           clause=f'the model object passed to .{callee}() is bound only to copy.deepcopy(...) results (fresh, shares nothing with self._model_content)'))
    for rel, qual in HISTORY:
        key = (rel, qual); reach = A.reach(key); ge = A.global_events(reach)
        unres = [u for u in A.unresolved_in(reach)]
        st = core.REFUTED if [e for e in ge if not e.unknown] else core.UNKNOWN if ge else core.PROVED
        detail = '\n'.join(f'{effects.root_str(e.root)} written: {e.chain()} [in {e.site[1]}]' for e in ge[:8])
        obs.append(core.Ob(oid(rel, qual, 'history'), fns.get(key), BACKEND, st, 0.0, detail=detail,
                           clause=f'no function on the call tree of {qual} ({len(reach)} functions) writes a module-level variable, mutates a module-level object or calls a register_* function'))
    for rel, qual, cls in FRESH:
        ok, detail = effects.constructed_locally(A.prog, (rel, qual), cls)
        obs.append(core.Ob(oid(rel, qual, f'fresh.{cls}'), fns.get((rel, qual)), 'syntactic-dataflow', core.PROVED if ok else core.REFUTED, 0.0, detail=detail,
                           clause=f'{cls} is constructed inside {qual} into a local and never cached on self'))
    return obs

def set_obligations(A, fns):
    ss = effects.SetSites(A.prog); reach = A.reach(SET_ROOT); sites = ss.sites(reach); obs = []; count = {}
    for s in sorted(sites, key=lambda s: (s['file'], s['fn'], s['line'], s['col'])):
        n = count[(s['file'], s['fn'])] = count.get((s['file'], s['fn']), 0) + 1
        if s['elem'] == 'int': st, why = core.PROVED, 'elements are ints (hash(int) is the value: order independent of PYTHONHASHSEED)'
        elif s['body_order_free']: st, why = core.PROVED, 'loop body is order-insensitive (only set insertions / guarded raise-continue-return constant)'
        else: st, why = core.UNKNOWN, f'element type {s["elem"]} is not known to hash deterministically and the body is not order-insensitive by the syntactic criterion'
        ob = core.Ob(oid(s['file'], s['fn'], f'set-iter.{n}'), fns.get((s['file'], s['fn'])), 'set-site-typing', st, 0.0, detail=f'{s["file"]}:{s["line"]} `{s["text"]}` over `{s["expr"]}`: {why}',
                     clause=f'iteration `{s["text"]}` over set `{s["expr"]}` (element type {s["elem"]}) cannot make the output depend on the hash seed')
        obs.append(ob)
    return obs, sites

# ------------------------------------------------------------------------------------------------ canaries (in-memory source mutants)
def canary_specs():
    return [
        ('Calibrator.load_model_qsvs: drop copy.deepcopy', CAL, 'self._model_qsvs = copy.deepcopy(model_qsvs)', 'self._model_qsvs = model_qsvs',
         lambda A: [decide_frame(A, (CAL, 'Calibrator.load_model_qsvs'), 'model_qsvs')[0], decide_frame(A, (Q, 'Quantizer.calibrate'), 'previous_calibration_result')[0]], 'all'),
        ('ModelModifier.modify_model: drop the deep copy of the parsed model', MM,
         'quantized_model = copy.deepcopy(\n        flatbuffer_utils.read_model_from_bytearray(self._model_content)\n    )',
         'quantized_model = flatbuffer_utils.read_model_from_bytearray(self._model_content)',
         lambda A: [core.PROVED if effects.deepcopy_handoff(A.prog, (MM, 'ModelModifier.modify_model'), c, 1)[0] else core.REFUTED for c in ('transform_graph', 'quant_params_to_transformation_insts')], 'all'),
        ('Calibrator.calibrate: insert calibration_dataset.clear()', CAL, '    op_codes = self._flatbuffer_model.operatorCodes\n    if not self._model_qsvs:',
         '    calibration_dataset.clear()\n    op_codes = self._flatbuffer_model.operatorCodes\n    if not self._model_qsvs:',
         lambda A: [decide_frame(A, (CAL, 'Calibrator.calibrate'), 'calibration_dataset')[0], decide_frame(A, (Q, 'Quantizer.calibrate'), 'calibration_data')[0]], 'all'),
        ('invoke_interpreter_signature: write through the shallow copy into the caller\'s array', TIU, '      input_data = signature_input[input_name]\n', '      input_data = signature_input[input_name]\n      input_data[...] = 0\n',
         lambda A: [decide_frame(A, (TIU, 'invoke_interpreter_signature'), 'signature_input_data')[0], decide_frame(A, (Q, 'Quantizer.validate'), 'test_data')[0]], 'all'),
        ('Quantizer.quantize: register a config policy at run time', Q, "    quant_params = self._get_quantization_params(calibration_result)\n",
         "    algorithm_manager.register_config_check_policy_func(AlgorithmName.MIN_MAX_UNIFORM_QUANT, None)\n    quant_params = self._get_quantization_params(calibration_result)\n",
         lambda A: [core.REFUTED if [e for e in A.global_events(A.reach((Q, 'Quantizer.quantize'))) if not e.unknown] else core.PROVED], 'all'),
        ('ParamsGenerator._check_tensor_names_are_unique: iterate a set of str', PG, '        global_tensor_names.add(tensor_name)\n', '        global_tensor_names.add(tensor_name)\n    self._order = list(global_tensor_names)\n',
         lambda A: [o.status for o in set_obligations(A, {})[0] if 'ParamsGenerator._check_tensor_names_are_unique' in o.id] or [core.PROVED], 'all'),
    ]

# ---- regression cases for the parameter-rebinding rule (effects.FnInfo.rebind_line): a synthetic module analysed together with the
# real package (override-only entry), independent of the repository text.  name -> expected verdict for parameter `p`.
SELFTEST_REL = '__c14_selftest__.py'
SELFTEST_SRC = '''
import copy
def _sink(d):
  d['k']['min'] = 0
def ifelse_deepcopy(p):
  if p is None:
    p = {}
  else:
    p = copy.deepcopy(p)
  _sink(p)
def elif_chain_all_rebind(p, a):
  if p is None:
    p = {}
  elif a:
    p = copy.deepcopy(p)
  else:
    p = copy.deepcopy(p)
  _sink(p)
def ifelse_other_branch_raises(p):
  if p is None:
    raise ValueError('x')
  else:
    p = copy.deepcopy(p)
  _sink(p)
def ifexp_deepcopy(p):
  p = copy.deepcopy(p) if p is not None else {}
  _sink(p)
def plain_deepcopy(p):
  p = copy.deepcopy(p)
  _sink(p)
def shallow_copy_top_level_store_only(p):
  p = dict(p)
  p['new'] = 1
def if_without_else(p, flag):
  if flag:
    p = copy.deepcopy(p)
  _sink(p)
def branch_not_rebinding(p, flag):
  if flag:
    p = copy.deepcopy(p)
  else:
    pass
  _sink(p)
def elif_chain_missing_else(p, a, b):
  if a:
    p = {}
  elif b:
    p = copy.deepcopy(p)
  _sink(p)
def ifelse_shallow_copy(p):
  if p is None:
    p = {}
  else:
    p = dict(p)
  _sink(p)
def ifexp_shallow_copy(p):
  p = dict(p) if p is not None else {}
  _sink(p)
def mutating_use_before_rebinding(p):
  p.pop('x', None)
  if p is None:
    p = {}
  else:
    p = copy.deepcopy(p)
  _sink(p)
def branch_rebinds_to_itself(p, q):
  if q is None:
    p = copy.deepcopy(p)
  else:
    p = p
  _sink(p)
def rebinding_inside_loop(p, xs):
  for x in xs:
    p = copy.deepcopy(p)
  _sink(p)
def rebinding_in_try(p):
  try:
    p = copy.deepcopy(p)
  except Exception:
    pass
  _sink(p)
'''
SELFTEST_EXPECT = dict(ifelse_deepcopy=core.PROVED, elif_chain_all_rebind=core.PROVED, ifelse_other_branch_raises=core.PROVED, ifexp_deepcopy=core.PROVED,
                       plain_deepcopy=core.PROVED, shallow_copy_top_level_store_only=core.PROVED,
                       if_without_else=core.REFUTED, branch_not_rebinding=core.REFUTED, elif_chain_missing_else=core.REFUTED, ifelse_shallow_copy=core.REFUTED,
                       ifexp_shallow_copy=core.REFUTED, mutating_use_before_rebinding=core.REFUTED, branch_rebinds_to_itself=core.REFUTED,
                       rebinding_inside_loop=core.REFUTED, rebinding_in_try=core.REFUTED)

def rebinding_selftests(rep):
    try: S = effects.Analysis(core.PKG, {SELFTEST_REL: SELFTEST_SRC}).run()
    except Exception as e:
        rep.canary('self-test: parameter-rebinding rule', False, f'analysis crashed: {type(e).__name__}: {e}'); return
    for fn, want in SELFTEST_EXPECT.items():
        got = decide_frame(S, (SELFTEST_REL, fn), 'p')[0]
        rep.canary(f'self-test rebinding rule: {fn} must be {want}', got == want, f'got {got}')
    # the same rule on the real function: mutants of the guard in ParamsGenerator.generate_quantization_parameters
    src = core.read_source(PG); key = (PG, 'ParamsGenerator.generate_quantization_parameters'); fi = S.prog.fns[key]
    if 'model_qsvs' in fi.rebind_line:
        import ast as _ast
        guard = next((s for s in fi.node.body if effects.stmt_rebinds(s, 'model_qsvs')), None)
        seg = _ast.get_source_segment(src, guard, padded=True) if guard is not None else None
        ind = ' ' * guard.col_offset if guard is not None else ''
        muts = [('drop the copying branch (if without else)', f'{ind}if model_qsvs is None:\n{ind}  model_qsvs = {{}}'),
                ('shallow copy dict(model_qsvs) instead of a deep copy', f'{ind}if model_qsvs is None:\n{ind}  model_qsvs = {{}}\n{ind}else:\n{ind}  model_qsvs = dict(model_qsvs)'),
                ('rebinding in one branch only', f'{ind}if model_qsvs is None:\n{ind}  model_qsvs = {{}}\n{ind}else:\n{ind}  pass'),
                ('mutating use before the guard', f'{ind}model_qsvs.pop("x", None)\n' + (seg or ''))]
        for name, new in muts:
            if not seg or seg not in src: rep.canary(f'generate_quantization_parameters guard: {name}', False, 'guard statement not found (stale canary)'); continue
            try:
                M = effects.Analysis(core.PKG, {PG: src.replace(seg, new, 1)}).run()
                sts = [decide_frame(M, key, 'model_qsvs')[0], decide_frame(M, (Q, 'Quantizer.quantize'), 'calibration_result')[0]]
            except Exception as e:
                rep.canary(f'generate_quantization_parameters guard: {name}', False, f'analysis crashed on the mutant: {type(e).__name__}: {e}'); continue
            rep.canary(f'generate_quantization_parameters guard: {name}', all(x == core.REFUTED for x in sts), str(sts))
    else:
        rep.notes.append('ParamsGenerator.generate_quantization_parameters does not rebind model_qsvs at top level: guard mutants not applicable')

# ------------------------------------------------------------------------------------------------ run

# ---------------------------------------------------------------------------------------------- reads clause on the Quantizer object
def self_reads_obligations(rep, src_override=None):
    """History independence through the Quantizer instance: quantize()/calibrate() may read, of `self`, only the model and the recipe
    manager (the declared inputs of the property), plus attributes they themselves assigned earlier in the same call.  Decided on the
    real AST of quantizer.py (methods and properties reached through `self.` are followed)."""
    import ast
    rel = 'quantizer.py'; src = src_override if src_override is not None else core.read_source(rel)
    tree = ast.parse(src); cls = next(n for n in tree.body if isinstance(n, ast.ClassDef) and n.name == 'Quantizer')
    methods = {m.name: m for m in cls.body if isinstance(m, ast.FunctionDef)}
    ALLOWED = {'float_model', '_recipe_manager'}
    def reads(mname, seen):
        """-> list of (attr, line, via) read by method mname (transitively) that are not assigned earlier at top level of the same method"""
        if mname in seen or mname not in methods: return []
        seen = seen | {mname}; m = methods[mname]; out = []
        assigned_at = {}
        for st in m.body:                                  # top-level stores only (unconditional)
            if isinstance(st, ast.Assign):
                for t in st.targets:
                    if isinstance(t, ast.Attribute) and isinstance(t.value, ast.Name) and t.value.id == 'self': assigned_at.setdefault(t.attr, st.lineno)
        for n in ast.walk(m):
            if isinstance(n, ast.Attribute) and isinstance(n.value, ast.Name) and n.value.id == 'self' and isinstance(n.ctx, ast.Load):
                if n.attr in methods:
                    out += [(a, l, f'{mname} -> {v}') for a, l, v in reads(n.attr, seen)]
                elif not (n.attr in assigned_at and assigned_at[n.attr] < n.lineno):
                    out.append((n.attr, n.lineno, mname))
        return out
    obs = []
    for entry in ('quantize', 'calibrate'):
        fn = core.Fn(rel, f'Quantizer.{entry}', src_override=src_override)
        if src_override is None: rep.fn(fn)
        bad = sorted({(a, l, v) for a, l, v in reads(entry, frozenset()) if a not in ALLOWED})
        obs.append(core.Ob(oid(rel, f'Quantizer.{entry}', 'reads.only-model-and-recipe-of-self'), fn, 'ast-dataflow', core.PROVED if not bad else core.REFUTED, 0.0,
                           detail=f'reads of self outside {sorted(ALLOWED)}: {bad}', clause='result depends only on (model, recipe, arguments): no read of state left on the Quantizer by earlier calls'))
    return obs

def native_history_replay():
    """quantize(c1) then quantize(c2) on one Quantizer vs quantize(c2) on a fresh Quantizer: bytes must agree"""
    try:
        import absl.logging, numpy as np; absl.logging.set_verbosity('error')
        from ai_edge_quantizer import quantizer
        from ai_edge_quantizer.utils import tfl_interpreter_utils as tiu
        path = os.path.join(core.PKG, 'tests/models/single_fc_bias.tflite'); rec = os.path.join(core.PKG, 'recipes/default_a8w8_recipe.json')
        itp = tiu.create_tfl_interpreter(path); det = itp.get_signature_runner().get_input_details()
        d1 = [{n: np.ones(d['shape'], dtype=d['dtype']) for n, d in det.items()}]; d2 = [{n: 3 * np.ones(d['shape'], dtype=d['dtype']) for n, d in det.items()}]
        q = quantizer.Quantizer(path, rec); c1 = q.calibrate(d1); c2 = q.calibrate(d2)
        q.quantize(c1); b2 = bytes(q.quantize(c2).quantized_model)
        f = quantizer.Quantizer(path, rec); fresh = bytes(f.quantize(c2).quantized_model)
        return dict(confirmed=b2 != fresh, inputs='single_fc_bias.tflite + default_a8w8: quantize(c1); quantize(c2) on one Quantizer vs a fresh Quantizer quantize(c2)', observed=dict(same_bytes=b2 == fresh))
    except Exception as e:
        return dict(confirmed=False, note=f'replay could not run: {type(e).__name__}: {e}')

HASHSEED_CHILD = r"""
import hashlib, json, os, sys
os.environ.setdefault('TF_CPP_MIN_LOG_LEVEL', '3')
import numpy as np, absl.logging; absl.logging.set_verbosity('error')
from ai_edge_quantizer import quantizer
from ai_edge_quantizer.utils import tfl_interpreter_utils as tiu
pkg = sys.argv[1]; out = {}
for model, recipe in json.loads(sys.argv[2]):
    path = os.path.join(pkg, 'tests/models', model); rec = os.path.join(pkg, 'recipes', recipe)
    try:
        q = quantizer.Quantizer(path, rec); res = None
        if q.need_calibration:
            itp = tiu.create_tfl_interpreter(path); det = itp.get_signature_runner().get_input_details()
            res = q.calibrate([{n: (np.arange(int(np.prod(d['shape'])), dtype=np.float32).reshape(d['shape']) / 7.0 - 3.0).astype(d['dtype']) for n, d in det.items()}])
        out[model + ' x ' + recipe] = hashlib.sha256(bytes(q.quantize(res).quantized_model)).hexdigest()
    except Exception as e: out[model + ' x ' + recipe] = 'RAISED ' + type(e).__name__
print('HASHES ' + json.dumps(out, sort_keys=True))
"""
HASHSEED_CASES = [('conv_fc_mnist.tflite', 'default_af32w8float_recipe.json'), ('conv_fc_mnist.tflite', 'default_a8w8_recipe.json'), ('single_fc_bias.tflite', 'default_af32w4float_recipe.json'),
                  ('two_signatures.tflite', 'default_af32w8float_recipe.json')]
def hashseed_replay(seeds=(1, 2, 3, 4)):
    """the public API in FRESH child processes that differ only in PYTHONHASHSEED: the returned bytes must be identical (C14: 'identical across runs and hash seeds')"""
    import subprocess
    env0 = dict(os.environ); procs = []
    for sd in seeds:
        env = dict(env0, PYTHONHASHSEED=str(sd))
        procs.append((sd, subprocess.Popen([sys.executable, '-c', HASHSEED_CHILD, core.PKG, json.dumps(HASHSEED_CASES)], env=env, stdout=subprocess.PIPE, stderr=subprocess.DEVNULL, text=True)))
    res = {}
    for sd, pr in procs:
        try: out = pr.communicate(timeout=600)[0]
        except Exception: pr.kill(); out = ''
        line = next((l for l in out.splitlines() if l.startswith('HASHES ')), None)
        res[sd] = json.loads(line[7:]) if line else None
    ran = {sd: r for sd, r in res.items() if r is not None}
    if len(ran) < 2: return dict(confirmed=False, note='fewer than two child processes produced a result', cases=0)
    diff = sorted(k for k in next(iter(ran.values())) if len({r.get(k) for r in ran.values()}) > 1)
    return dict(confirmed=bool(diff), inputs=dict(cases=[f'{m} x {r}' for m, r in HASHSEED_CASES], seeds=sorted(ran)), violated=[f'bytes returned by quantize() differ between hash seeds for {k}' for k in diff],
                observed={k: {str(sd): (r.get(k) or '')[:12] for sd, r in ran.items()} for k in diff} or 'identical for every case and seed', cases=len(HASHSEED_CASES) * len(ran))

def run(rep):
    t0 = time.time()
    A = effects.Analysis(core.PKG).run()
    t_an = time.time() - t0
    # every function on a call tree the verdicts depend on is recorded with its source hash
    keys = set()
    for rel, qual, _ in ENTRIES: keys |= A.reach((rel, qual))
    for rel, qual in HISTORY: keys |= A.reach((rel, qual))
    fns = {}
    for k in sorted(keys):
        if k[1] == '<module>' or k not in A.prog.fns: continue
        try: fns[k] = rep.fn(core.Fn(k[0], k[1]))
        except LookupError as e: rep.errors.append(f'cannot extract {k}: {e}')
    obs, errs = frame_obligations(A, fns)
    for e in errs: rep.errors.append(e)
    excl_cache = {}; kf_done = set()
    for ob in obs:
        rel, qual, p = ob.entry; ob.static0 = ob.status
        if ob.status == core.REFUTED:
            ob.replay = dict(native_replay(qual, p), leaf_stores=[{k: r[k] for k in ('file', 'function', 'text', 'line')} for r in ob.leafs])
        k = rep.finding_for(ob.id)
        if k is not None and ob.status != core.PROVED:
            wr = ob.replay if isinstance(ob.replay, dict) else native_replay(qual, p)
            if wr.get('confirmed'):
                if k['id'] not in kf_done: rep.known_finding(k, True); kf_done.add(k['id'])
                excl = frozenset((l['file'], l['function'], l['text']) for l in k.get('leaf_stores', []))
                if excl not in excl_cache: excl_cache[excl] = effects.Analysis(core.PKG, exclude_leaves=excl).run()
                A2 = excl_cache[excl]; st2, detail2, recs2 = decide_frame(A2, (rel, qual), p)
                hit = {(l['file'], l['fn'], l['text']) for l in A2.excluded_hits}
                ob.id += '[excluding:' + k['id'] + ']'; ob.backend = BACKEND + '+class-exclusion'; ob.status, ob.detail, ob.leafs = st2, detail2, recs2
                if excl - hit: rep.notes.append(f"finding {k['id']}: listed leaf store(s) no longer present in the source: {sorted(excl - hit)}")
                if st2 == core.REFUTED:
                    ob.replay = dict(confirmed=False, note='a store path OUTSIDE the listed finding reaches the argument; the native comparison cannot separate it from the listed defect',
                                     inputs=wr.get('inputs'), observed=wr.get('observed'), leaf_stores=[{kk: r[kk] for kk in ('file', 'function', 'text', 'line')} for r in recs2])
            elif k['id'] not in kf_done: rep.known_finding(k, False); kf_done.add(k['id'])
        rep.add(ob)
    rep.extend(other_obligations(A, fns))
    for ob in self_reads_obligations(rep):
        if ob.status == core.REFUTED: ob.replay = native_history_replay()
        rep.add(ob)
    # canary for the reads clause: quantize() returning a cached result when the recipe is unchanged
    _src = core.read_source('quantizer.py'); _a = "    quant_params = self._get_quantization_params(calibration_result)"
    if _a in _src:
        mut = _src.replace(_a, "    if self._result.quantized_model is not None and self._result.recipe == self.get_quantization_recipe():\n      return self._result\n" + _a)
        rep.canary('Quantizer.quantize: result cached on self when the recipe is unchanged', any(o.status == core.REFUTED for o in self_reads_obligations(rep, mut)))
    else: rep.canary('Quantizer.quantize: result cached on self', False, 'mutation site not found')
    # bounded stand-in (never counted as proved): the native before/after comparison of EVERY entry point / argument must agree
    # with the static verdicts.  It runs when a refuted obligation needed the native scenario anyway, or in the thorough tier.
    if _SCEN or rep.tier == 'thorough':
        try:
            sc = scenario(); cases = 0; bad = []
            for ob in obs:
                k = f'{ob.entry[1]}({ob.entry[2]})'
                if k in sc:
                    cases += 1
                    if sc[k] and ob.static0 == core.PROVED: bad.append(k)
            rep.add_bounded('native before/after deep comparison of every caller-owned argument of every entry point', str(sc['_inputs']), cases, len(bad),
                            note='; '.join(sc['_errors']) or 'all scenario steps ran')
            if bad: rep.errors.append(f'native scenario shows a modified argument that the frame analysis proved unmodified: {bad}')
        except Exception as e:
            rep.notes.append(f'native scenario could not run: {type(e).__name__}: {str(e)[:160]}')
    sobs, sites = set_obligations(A, fns)
    # bounded stand-in for the 'identical across runs and hash seeds' clause (never counted as proved); it is also the native replay of an undecided set-iteration obligation
    hs = hashseed_replay()
    rep.add_bounded('Quantizer.quantize in fresh child processes that differ only in PYTHONHASHSEED', f'{len(HASHSEED_CASES)} fixture model x shipped recipe pairs x seeds {hs.get("inputs", {}).get("seeds")}: sha256 of the returned bytes identical', hs.get('cases', 0), 1 if hs.get('confirmed') else 0,
                    note=hs.get('note', ''))
    if hs.get('confirmed'):
        und = [o for o in sobs if o.status != core.PROVED]
        for o in und: o.status = core.REFUTED; o.replay = hs
        if not und:
            o = core.Ob('C14/bounded.hash-seeds/bytes-identical-across-hash-seeds', None, 'bounded-native', core.REFUTED, 0.0, detail=str(hs['violated']), clause='bytes returned by quantize() are identical across PYTHONHASHSEED values'); o.replay = hs; sobs.append(o)
    rep.extend(sobs)
    # ---- covers (vacuity): dispatch resolved from algorithm_manager's registration code, call trees non-trivial
    dyn = {(d['fn'], d['callee']): d['targets'] for d in A.dynamic_in(set(A.prog.fns))}
    for fn, callee, must in [('ParamsGenerator.generate_quantization_parameters', 'materialize_func', 'materialize_'), ('Calibrator.calibrate', 'calibrate_func', 'calibrate'),
                             ('Calibrator._initialize_model_qsvs', 'qsv_init_func', 'init_qsvs'), ('Calibrator._update_qsvs', 'qsv_update_func', '_update'),
                             ('compare_model', 'compare_fn', ''), ('TransformationPerformer._apply_single_transformation', 'self._transformation_registration[instruction.transformation]', '')]:
        tg = dyn.get((fn, callee), [])
        rep.cover(f'dispatch {fn}:{callee} resolved from source ({len(tg)} targets)', bool(tg) and any(must in t for t in tg))
    for rel, qual, _ in ENTRIES:
        if qual.split('.')[-1] not in ('load_model_qsvs',): rep.cover(f'call tree of {qual} non-trivial', len(A.reach((rel, qual))) > 1)
    fb = A.fallbacks_in(keys)
    if fb: rep.notes.append(f'{len(fb)} call(s) on the API call trees resolved only by a conservative fallback (see evidence: fallback_resolutions)')
    # ---- canaries
    for name, rel, a, b, decide, mode in canary_specs():
        src = core.read_source(rel)
        if a not in src: rep.canary(name, False, 'mutation site not found (stale canary)'); continue
        try:
            M = effects.Analysis(core.PKG, {rel: src.replace(a, b, 1)}).run(); sts = decide(M)
        except Exception as e:
            rep.canary(name, False, f'analysis crashed on the mutant: {type(e).__name__}: {e}'); continue
        rep.canary(name, bool(sts) and all(s != core.PROVED for s in sts), str(sts))
    rebinding_selftests(rep)
    # ---- honest evidence
    refl = A.reflection_in(keys)
    rep.trust('the frame analysis is syntactic and flow-insensitive over the source text (single exception: a top-level statement that rebinds a parameter name on every path through it ends the scope of that parameter; the assigned values keep whatever aliases they have): reflection (setattr/getattr/exec/eval/__dict__/importlib) is not modelled; '
              f'{len(refl)} such site(s) on the API call trees' + (': ' + '; '.join(f"{r['file']}:{r['line']} {r['text']}" for r in refl[:6]) if refl else ''))
    rep.trust('external callables behave as listed in vlib/effects.py (EXT_FUNCS / EXT_METHODS): numpy functions there are pure or return views as stated, json/copy/dataclasses '
              'helpers are pure, builtin container methods mutate only their receiver; any external callable NOT listed is reported as an unresolved call')
    rep.trust('C-extension side effects: TFLite Interpreter.set_tensor / SignatureRunner.__call__ copy their inputs (memcpy into interpreter tensors) and never write to them; '
              'tensorflow.lite.tools.flatbuffer_utils.read_model* / convert_object_to_bytearray unpack into / pack from NEW python objects and do not write to their argument')
    rep.trust('flatbuffers object API may expose numpy arrays that are read-only views of immutable model bytes; no in-place numpy write to parsed model arrays is modelled as a write to the model bytes')
    rep.trust('CPython: hash(int) does not depend on PYTHONHASHSEED, so iteration order of a set of ints is a function of the insertion history only; set/dict of str would not be (str hashes are salted)')
    for t in sorted(A.trusted_used): rep.trust(t)
    rep.assume('caller-supplied callables (Calibrator.calibrate(qsv_update_func=...), compare_model(compare_fn=...)) are resolved to the values the public API passes '
               '(calibration_utils.moving_average_update, validation_utils.*); an arbitrary user callback is outside the frame')
    rep.assume('functools.partial pre-bound arguments and bound-method receivers stored inside containers are not tracked (none occur on the API call trees)')
    rep.assume('Quantizer.load_config_policy is outside the history alphabet of the property (update/load recipe, calibrate, quantize, validate); it DOES write the global algorithm registry: '
               + ('; '.join(sorted({f"{e.leaf['file']}:{e.leaf['line']}" for e in A.global_events(A.reach((Q, 'Quantizer.load_config_policy')))})) or 'no write found'))
    rep.assume('history independence is established at the level of writes: the API call trees write no module-level state, construct fresh worker objects per call, and Quantizer.quantize writes only self._result; '
               'the TFLite serializer / interpreter are assumed deterministic')
    unres_api = A.unresolved_in(keys)
    rep.extra['unresolved_calls'] = unres_api
    rep.extra['unresolved_calls_elsewhere'] = [u for u in A.unresolved_in(set(A.prog.fns)) if (u['file'], u['fn']) not in keys]
    rep.extra['fallback_resolutions'] = fb
    rep.extra['dynamic_dispatch'] = [d for d in A.dynamic_in(keys) if len(d['targets']) > 1 or 'func' in d['callee'] or 'fn' in d['callee']]
    rep.extra['set_sites'] = sites
    rep.extra['reflection_sites'] = refl
    rep.extra['analysis'] = dict(functions=len(A.prog.fns), modules=len(A.prog.mods), fixpoint_rounds=A.rounds, seconds=round(t_an, 2), functions_on_api_call_trees=len(keys),
                                 registration_module_sha=hashlib.sha256(core.read_source('algorithm_manager.py').encode()).hexdigest()[:16])
    if unres_api and any(u['receives'] for u in unres_api):
        rep.notes.append(f'{sum(1 for u in unres_api if u["receives"])} unresolved call(s) on the API call trees receive parameter-rooted objects (see evidence: unresolved_calls)')

def replay(payload):
    """re-runs the native before/after comparison recorded in a replay file; 1 = the argument is still modified"""
    ob = payload.get('obligation', ''); call = (payload.get('inputs') or {}).get('call')
    if not call:
        parts = ob.split('/')
        if len(parts) >= 3 and parts[2].startswith('frame.'):
            qual = parts[1]; p = parts[2][len('frame.'):].split('[')[0]
            for rel, q, _ in ENTRIES:
                if qual == f'{modname(rel)}.{q}': call = f'{q}({p})'
    if not call: print('no native replay recorded for', ob); return 0
    qual, p = call[:-1].split('(')
    rp = native_replay(qual, p)
    print('replaying', ob, '->', call); print(json.dumps(rp, indent=1, default=str)[:3000])
    return 1 if rp.get('confirmed') else 0
