"""C03 — each op runs in exactly the mode its recipe rule selected; the others are untouched.

Everything below runs on the REAL functions of the working tree (core.REPO): parsed from source (pyvc, AST obligations) or executed natively.

PROVED obligations (counted)
  (i)   min_max_quantize_utils.get_tensor_transformations = the mode table of DESIGN A.10 (written in replay/c03_native.py from the property text):
        one obligation per (row SRQ | DRQ | BLOCK | WO | NONE, inbound, constant), each over EVERY constructible config skeleton (activation None / sym x
        granularity x dtype, weight likewise, compute precision, explicit_dequantize) with OPAQUE integers (num_bits, block_size): a run in which no integer
        is inspected decides the cell for all integers -> backend exhaustive-native-opaque.  NONE row = ValueError.  One obligation per shipped policy /
        recipe source: no config it admits raises, and it follows the table (backend exhaustive-native: the finite set of shipped configs).
  (ii)  pyvc (unbounded, loop invariants; contracts/c03_lists.py): _tensor_indices_with_dtype, _add_non_match_tensors_to_ignored_lists (sets as membership
        arrays; its callee by contract), _split_tensors_by_indices, _materialize_ignored_tensors, _merge_materialized_tensors (the latter under the preconditions
        of its single call site, listed in the assumptions).
  (iii) pyvc: ParamsGenerator._get_params_for_no_quant_op (every operand != -1, inputs then outputs, [NO_QUANTIZE], no parameters);
        AST/dataflow obligations on generate_quantization_parameters (exact checks in `routing_ast`).
  (v)   quant_params_to_tflite_type / nonlinear_quant_params_to_tflite_type tables and the insert_quant / insert_dequant 'dtypes' postconditions
        (props.graphcommon, pyvc).
  (vi)  AST frame obligation on quantize_tensor (exact checks in `frame_ast`) + the finite fact that the real TransformationPerformer never applies NO_QUANTIZE.
BOUNDED stand-ins (rep.add_bounded, never counted; a failing input is additionally emitted as a refuted obligation with its native replay)
  materialize_standard_op as a whole (synthetic ops), native cross-checks of the pyvc contracts, generate_quantization_parameters routing, _quant_params_to_transformation_insts (dtype algebra),
  quantize_tensor frame, naive_min_max_quantize.materialize_fc_conv (bias / weight clauses), float_casting materialize functions.  Scopes are stated at each call.
Known findings: rep.finding_for / rep.known_finding (none listed for C03).  replay(payload) re-executes a recorded failing input natively."""
import ast, json, time
from vlib import core

LEVEL = 'proof'
MMU, TIG, PG, QTEN = 'algorithms/utils/min_max_quantize_utils.py', 'transformation_instruction_generator.py', 'params_generator.py', 'transformations/quantize_tensor.py'
NMM, PERF, FC_ = 'algorithms/uniform_quantize/naive_min_max_quantize.py', 'transformation_performer.py', 'algorithms/nonlinear_quantize/float_casting.py'
P = 'C03'

# ------------------------------------------------------------------------------------------------ bounded runner (fork pool over chunks)
_G = {}
def _chunk(i):
    from replay import c03_native as N
    m, family, chunks = _G['m'], _G['family'], _G['chunks']; stats = {}; fails = []; nf = 0
    for c in chunks[i]:
        try:
            f = N.FAMILY[family](m, c, stats) if family in ('materialize', 'algebra') else N.FAMILY[family](m, c)
        except N.Inspected as e: f = f'opaque integer inspected: {e}'
        except Exception as e: f = 'check raised ' + N.describe(e)
        if f:
            nf += 1
            if len(fails) < 3: fails.append((c, f))
    return len(chunks[i]), nf, fails, stats

def run_family(m, family, cases, procs=16):
    """-> (number of cases, number of failures, first failures [(case, text)], merged stats)"""
    cases = list(cases); k = max(1, min(64, len(cases) // 200 or 1)); chunks = [cases[i::k] for i in range(k)]
    _G.update(m=m, family=family, chunks=chunks)
    res = core.run_pool(_chunk, len(chunks), procs if len(cases) > 2000 else 1)
    n = sum(r[0] for r in res); nf = sum(r[1] for r in res); fails = [f for r in res for f in r[2]]; stats = {}
    for r in res:
        for a, b in r[3].items(): stats[a] = stats.get(a, 0) + b
    fails.sort(key=lambda cf: json.dumps(cf[0], sort_keys=True, default=str))
    return n, nf, fails, stats

def in_class(k, case):
    pred = k.get('class')
    return bool(pred) and all(case.get(a) == b for a, b in pred.items())

def bounded(rep, m, family, cases, fn, function, scope, oid, clause, note=''):
    """bounded stand-in on the real function; a failing input becomes a refuted obligation with its native replay"""
    from replay import c03_native as N
    t0 = time.time(); n, nf, fails, stats = run_family(m, family, cases)
    extra = (note + ' ' if note else '') + (('outcomes: ' + json.dumps(stats, sort_keys=True)) if stats else '')
    rep.add_bounded(function, scope, n, nf, extra.strip())
    if nf:
        k = rep.finding_for(oid)
        if k is not None and all(in_class(k, c) for c, _ in fails):
            fl, obs = N.run_case(m, family, fails[0][0]); rep.known_finding(k, fl); return n, nf, fails, stats
        c, txt = fails[0]; fl, obs = N.run_case(m, family, c)
        ob = core.Ob(oid, fn, 'bounded-native', core.REFUTED, time.time() - t0, detail=f'{nf} of {n} cases violate the clause; first: {json.dumps(c, default=str)[:400]}: {txt}', clause=clause)
        ob.replay = dict(confirmed=bool(fl), inputs=dict(family=family, case=c), observed=obs, failing_cases=nf, more=[dict(case=c2, observed=t2) for c2, t2 in fails[1:4]])
        rep.add(ob)
    return n, nf, fails, stats

# ------------------------------------------------------------------------------------------------ (i) mode table
def mode_table(rep, m, fns, emit=True):
    """-> {obligation id: status}.  With emit=False (canaries) nothing is added to the report."""
    from replay import c03_native as N
    cells = {}; refused = 0
    for c in N.mode_cases():
        if N.build_cfg(m, c) is None: refused += 1; continue
        cells.setdefault((N.case_row(c), c['inbound'], c['const']), []).append(c)
    status = {}
    for (row, inb, const), cs in sorted(cells.items(), key=lambda kv: (N.ROWS.index(kv[0][0]), not kv[0][1], not kv[0][2])):
        oid = f'{P}/min_max_quantize_utils.get_tensor_transformations/mode-table.{row}.in={int(inb)}.const={int(const)}'
        t0 = time.time(); bad = []; backend = 'exhaustive-native-opaque'; inspected = None
        for c in cs:
            try: f = N.mode_case(m, c)
            except N.Inspected as e:
                inspected = str(e); c = dict(c, opaque=False); f = N.mode_case(m, c)      # the function looks at an integer: fall back to the library's widths
            if f: bad.append((c, f))
        want = N.table(row, inb, const)
        clause = f'{row} row, is_inbounding_tensor={inb}, is_constant={const}: returns {want} for all {len(cs)} config skeletons of the row (integers opaque)'
        if inspected and not bad:
            ob = core.Ob(oid, fns['gtt'], 'exhaustive-native', core.UNKNOWN, time.time() - t0, detail=f'the function inspects an integer ({inspected}); the table holds for the sampled widths only', clause=clause)
        elif bad:
            c, f = bad[0]; fl, obs = N.run_case(m, 'mode', c)
            ob = core.Ob(oid, fns['gtt'], backend, core.REFUTED, time.time() - t0, detail=f'{len(bad)} of {len(cs)} skeletons: {f}', clause=clause)
            ob.replay = dict(confirmed=bool(fl), inputs=dict(family='mode', case=c), observed=obs)
        else: ob = core.Ob(oid, fns['gtt'], backend, core.PROVED, time.time() - t0, clause=clause)
        status[oid] = ob.status
        if emit: rep.add(ob)
    if emit:
        rep.cover('mode table: every row has configs', all(any(k[0] == r for k in cells) for r in N.ROWS))
        rep.cover('mode table: some skeleton refused by the real constructor', refused > 0)
        rep.extra['mode_table'] = dict(cells={f'{r}.in={int(i)}.const={int(k)}': len(v) for (r, i, k), v in cells.items()}, skeleton_points=sum(len(v) for v in cells.values()),
                                       refused_at_construction=refused, integers='opaque (num_bits, block_size of both tensor configs): never inspected')
    return status

def admitted(rep, m, fns, emit=True):
    from replay import c03_native as N
    status = {}
    for src, items in N.admitted_sources(m).items():
        oid = f'{P}/min_max_quantize_utils.get_tensor_transformations/admitted-config-never-raises.{src}'
        t0 = time.time(); bad = []; n = 0
        for label, oc in items:
            for inb in (True, False):
                for const in (True, False):
                    c = dict(source=src, label=label, op_config=oc, inbound=inb, const=const); n += 1
                    f = N.admitted_case(m, c)
                    if f: bad.append((c, f))
        clause = f'every config admitted by {src} ({len(items)} configs x inbound x constant): get_tensor_transformations does not raise and follows the mode table'
        if bad:
            c, f = bad[0]; fl, obs = N.run_case(m, 'admitted', c)
            ob = core.Ob(oid, fns['gtt'], 'exhaustive-native', core.REFUTED, time.time() - t0, detail=f'{len(bad)} of {n}: {f}', clause=clause); ob.replay = dict(confirmed=bool(fl), inputs=dict(family='admitted', case=c), observed=obs)
        else: ob = core.Ob(oid, fns['gtt'], 'exhaustive-native', core.PROVED, time.time() - t0, clause=clause)
        status[oid] = ob.status
        if emit:
            rep.add(ob)
            if src.startswith('default_policy'): rep.cover(f'admitted configs: {src} non-empty', len(items) > 0)
    return status

# ------------------------------------------------------------------------------------------------ (iii) routing: obligations on the real AST
def _u(n): return ast.unparse(n)
def routing_ast(fn):
    """Checks on the AST of ParamsGenerator.generate_quantization_parameters (each a named obligation; a pattern that is not found is reported as
    such, never silently passed).  With LOOP = the `for subgraph_op_id, op in enumerate(subgraph.operators)` statement:
      unknown-op-code-routed   LOOP contains exactly one `if op_code not in tfl_flatbuffer_utils.TFL_OP_CODE_TO_NAME:`; its body is exactly
                               op_quant_results = self._get_params_for_no_quant_op(subgraph_op_id, op, subgraph.tensors);
                               self._update_model_quant_results(op_quant_results); continue          and op_code is read from op_codes[op.opcodeIndex].builtinCode
      no-quantize-rule-routed  LOOP contains exactly one `if algorithm_name == algorithm_manager.AlgorithmName.NO_QUANTIZE:`; its body is exactly that
                               assignment of op_quant_results; algorithm_name is bound once, by `algorithm_name, op_quant_config =
                               model_recipe_manager.get_quantization_configs(op_key, op_scope)`, earlier in the same block
      materialize-only-in-else every call of materialize_func / algorithm_manager.get_quantization_func lies in the orelse of that `if`
      result-recorded          the statement after that `if` is self._update_model_quant_results(op_quant_results), and op_quant_results has exactly three
                               binding sites in the function (the two above and the else branch)"""
    node = fn.node; out = {}
    loops = [n for n in ast.walk(node) if isinstance(n, ast.For) and _u(n.target) == '(subgraph_op_id, op)' and _u(n.iter) == 'enumerate(subgraph.operators)']
    NOQ = 'op_quant_results = self._get_params_for_no_quant_op(subgraph_op_id, op, subgraph.tensors)'; UPD = 'self._update_model_quant_results(op_quant_results)'
    if len(loops) != 1:
        return {k: (False, f'{len(loops)} operator loops found') for k in ('unknown-op-code-routed', 'no-quantize-rule-routed', 'materialize-only-in-else', 'result-recorded')}
    L = loops[0]
    def blocks(n):
        for sub in ast.walk(n):
            for f in ('body', 'orelse', 'finalbody'):
                b = getattr(sub, f, None)
                if isinstance(b, list) and b and isinstance(b[0], ast.stmt): yield b
    ifs = [n for n in ast.walk(L) if isinstance(n, ast.If)]
    unk = [n for n in ifs if _u(n.test) == 'op_code not in tfl_flatbuffer_utils.TFL_OP_CODE_TO_NAME']
    ok = len(unk) == 1 and [_u(s) for s in unk[0].body] == [NOQ, UPD, 'continue'] and not unk[0].orelse
    if ok:
        blk = next(b for b in blocks(L) if unk[0] in b); i = blk.index(unk[0])
        ok = i > 0 and _u(blk[i - 1]) == 'op_code = op_codes[op.opcodeIndex].builtinCode' and any(_u(s) == 'op_codes = self.flatbuffer_model.operatorCodes' for s in node.body)
    out['unknown-op-code-routed'] = (ok, '' if ok else 'pattern not found: ' + '; '.join(_u(n.test) + ' -> ' + ' | '.join(_u(s) for s in n.body)[:200] for n in unk)[:400])
    nq = [n for n in ifs if _u(n.test) == 'algorithm_name == algorithm_manager.AlgorithmName.NO_QUANTIZE']
    binds = [n for n in ast.walk(L) if isinstance(n, (ast.Assign, ast.AugAssign, ast.AnnAssign, ast.For, ast.NamedExpr, ast.With)) and 'algorithm_name' in {x.id for t in ([n.target] if hasattr(n, 'target') else getattr(n, 'targets', [])) for x in ast.walk(t) if isinstance(x, ast.Name)}]
    ok = len(nq) == 1 and [_u(s) for s in nq[0].body] == [NOQ] and len(binds) == 1 and _u(binds[0]) == 'algorithm_name, op_quant_config = model_recipe_manager.get_quantization_configs(op_key, op_scope)'
    blk = None
    if ok:
        blk = next(b for b in blocks(L) if nq[0] in b); ok = binds[0] in blk and blk.index(binds[0]) < blk.index(nq[0])
    out['no-quantize-rule-routed'] = (ok, '' if ok else f'pattern not found ({len(nq)} tests, {len(binds)} bindings of algorithm_name)')
    calls = [n for n in ast.walk(node) if isinstance(n, ast.Call) and (_u(n.func) in ('materialize_func', 'algorithm_manager.get_quantization_func'))]
    inside = {id(x) for s in (nq[0].orelse if len(nq) == 1 else []) for x in ast.walk(s)}
    ok2 = len(nq) == 1 and len(calls) >= 2 and all(id(c) in inside for c in calls)
    out['materialize-only-in-else'] = (ok2, '' if ok2 else f'{sum(1 for c in calls if id(c) not in inside)} of {len(calls)} materialize calls outside the else branch')
    sites = [n for n in ast.walk(node) if isinstance(n, ast.Assign) and any(isinstance(t, ast.Name) and t.id == 'op_quant_results' for t in n.targets)]
    ok3 = blk is not None and blk.index(nq[0]) + 1 < len(blk) and _u(blk[blk.index(nq[0]) + 1]) == UPD and len(sites) == 3
    out['result-recorded'] = (ok3, '' if ok3 else f'{len(sites)} binding sites of op_quant_results / update call not directly after the if')
    return out

# ------------------------------------------------------------------------------------------------ (vi) frame of quantize_tensor: obligations on the real AST
MUTATORS = {'append', 'extend', 'insert', 'remove', 'pop', 'clear', 'sort', 'reverse', 'update', 'setdefault', 'fill', 'put', 'resize', 'itemset', '__setitem__', '__setattr__', 'setflags', 'partition'}
def frame_ast(fn):
    """Checks on the AST of quantize_tensor.quantize_tensor:
      store-targets  every store target that is not a plain local name is one of  transformation_input.buffers[tensor.buffer].data,  tensor.quantization,
                     tensor.type,  flatbuffer_quantization.<attr>   (no del / global / nonlocal / setattr / exec)
      roots          `tensor` is bound once, to transformation_input.subgraph.tensors[transformation_input.tensor_id]; `flatbuffer_quantization` is bound once, to a fresh
                     schema_py_generated.QuantizationParametersT(); `transformation_input` is never rebound
      buffer-store-guarded  the store to buffers[tensor.buffer].data is nested in `if tensor.buffer:` (buffer 0 is the shared empty buffer) and in
                     `if transformation_input.quant_params.quantized_data is not None:`
      no-escape      no call receives `tensor`, `flatbuffer_quantization`'s alias of model state, or an expression rooted at `transformation_input` other than through
                     .quant_params or .tensor_id; no mutating method (append, ...) is invoked on an expression rooted at tensor / transformation_input
    Together: the function writes at most the target tensor's type and quantization and the data of buffers[tensor.buffer]."""
    node = fn.node; out = {}
    allowed = {'transformation_input.buffers[tensor.buffer].data', 'tensor.quantization', 'tensor.type'}
    bad = []; binds = {}
    for n in ast.walk(node):
        tg = []
        if isinstance(n, ast.Assign): tg = n.targets
        elif isinstance(n, (ast.AugAssign, ast.AnnAssign)): tg = [n.target]
        elif isinstance(n, (ast.For, ast.comprehension)): tg = [n.target]
        elif isinstance(n, ast.NamedExpr): tg = [n.target]
        elif isinstance(n, ast.With): tg = [i.optional_vars for i in n.items if i.optional_vars is not None]
        elif isinstance(n, (ast.Delete, ast.Global, ast.Nonlocal)): bad.append(_u(n))
        for t in tg:
            for el in (t.elts if isinstance(t, (ast.Tuple, ast.List)) else [t]):
                if isinstance(el, ast.Name): binds.setdefault(el.id, []).append(_u(n.value) if isinstance(n, ast.Assign) else '?')
                elif _u(el) in allowed or (isinstance(el, ast.Attribute) and isinstance(el.value, ast.Name) and el.value.id == 'flatbuffer_quantization'): pass
                else: bad.append(_u(el))
        if isinstance(n, ast.Call) and _u(n.func) in ('setattr', 'exec', 'eval', 'delattr', 'object.__setattr__'): bad.append(_u(n))
    out['store-targets'] = (not bad, '' if not bad else 'store outside the frame: ' + ', '.join(bad)[:300])
    ok = binds.get('tensor') == ['transformation_input.subgraph.tensors[transformation_input.tensor_id]'] and binds.get('flatbuffer_quantization') == ['schema_py_generated.QuantizationParametersT()'] \
         and 'transformation_input' not in binds
    out['roots'] = (ok, '' if ok else f'tensor bound by {binds.get("tensor")}, flatbuffer_quantization by {binds.get("flatbuffer_quantization")}, transformation_input rebound: {"transformation_input" in binds}')
    parents = {}
    for n in ast.walk(node):
        for c in ast.iter_child_nodes(n): parents[id(c)] = n
    stores = [n for n in ast.walk(node) if isinstance(n, ast.Assign) and any(_u(t) == 'transformation_input.buffers[tensor.buffer].data' for t in n.targets)]
    def guards(n):
        g = []; c = n
        while id(c) in parents:
            pa = parents[id(c)]
            if isinstance(pa, ast.If) and any(c is x for x in pa.body): g.append(_u(pa.test))
            c = pa
        return g
    okg = len(stores) >= 1 and all({'tensor.buffer', 'transformation_input.quant_params.quantized_data is not None'} <= set(guards(n)) for n in stores)
    out['buffer-store-guarded'] = (okg, '' if okg else f'{len(stores)} buffer stores; guards: {[guards(n) for n in stores]}')
    esc = []
    def root_chain(e):
        chain = []
        while isinstance(e, (ast.Attribute, ast.Subscript, ast.Call)):
            if isinstance(e, ast.Attribute): chain.append(e.attr); e = e.value
            elif isinstance(e, ast.Subscript): chain.append('[]'); e = e.value
            else: chain.append('()'); e = e.func
        return (e.id if isinstance(e, ast.Name) else None), list(reversed(chain))
    for n in ast.walk(node):
        if not isinstance(n, ast.Call): continue
        if isinstance(n.func, ast.Attribute):
            r, ch = root_chain(n.func.value)
            if n.func.attr in MUTATORS and r in ('tensor', 'transformation_input'): esc.append(_u(n)[:80])
        for a in list(n.args) + [k.value for k in n.keywords]:
            for sub in ast.walk(a):
                if isinstance(sub, ast.Name) and sub.id == 'tensor': esc.append('tensor passed to ' + _u(n.func))
            # maximal attribute chains rooted at transformation_input inside the argument
            stack = [a]
            while stack:
                e = stack.pop()
                r, ch = root_chain(e) if isinstance(e, (ast.Attribute, ast.Subscript)) else (None, [])
                if r == 'transformation_input':
                    if not ch or ch[0] not in ('quant_params', 'tensor_id'): esc.append(_u(e)[:80] + ' passed to ' + _u(n.func))
                    continue
                if isinstance(e, ast.Name) and e.id == 'transformation_input': esc.append('transformation_input passed to ' + _u(n.func)); continue
                stack.extend(ast.iter_child_nodes(e))
    out['no-escape'] = (not esc, '' if not esc else '; '.join(sorted(set(esc)))[:300])
    return out

def ast_obligations(rep, fn, checks, family, emit=True):
    status = {}
    for name, (ok, why) in checks.items():
        oid = f'{P}/{fn.name}/{family}:{name}'
        ob = core.Ob(oid, fn, 'ast-dataflow', core.PROVED if ok else core.UNKNOWN, 0.0, detail=why, clause=f'{family}: {name} (syntactic check on the real source, see the docstring of props/C03.py:{family.replace("-", "_")})')
        status[oid] = ob.status
        if emit: rep.add(ob)
    return status

# ------------------------------------------------------------------------------------------------ pyvc families
def _search(i):
    if i: return None
    from replay import c03_native as N
    fam, gen = {'tiwd': ('tiwd', N.tiwd_cases), 'anm': ('ignored-lists', N.helper_cases_ignored_lists), 'split': ('split', N.split_cases), 'merge': ('merge', N.merge_cases), 'noquant': ('noquant', N.noquant_cases),
                'ignored': ('materialize', lambda: N.materialize_cases(N.COMBOS[:1]))}[_G['search']]
    m = N.load()
    for c in gen():
        fl, obs = N.run_case(m, fam, c)
        if fl: return dict(confirmed=True, inputs=dict(family=fam, case=c), observed=obs, note='failing input found by the native stand-in of the same helper')
    return None

def pyvc_helpers(rep, emit=True, src=None, which=('tiwd', 'anm', 'split', 'ignored', 'merge', 'noquant')):
    """-> list of (label, status) ; with src (a mutated file text) nothing is added to the report"""
    from contracts import c03_lists as L
    from vlib import pyvc
    table = {'tiwd': (MMU, '_tensor_indices_with_dtype', L.TensorIndicesWithDtype), 'anm': (MMU, '_add_non_match_tensors_to_ignored_lists', L.AddNonMatch), 'split': (MMU, '_split_tensors_by_indices', L.SplitTensorsByIndices),
             'ignored': (MMU, '_materialize_ignored_tensors', L.MaterializeIgnored), 'merge': (MMU, '_merge_materialized_tensors', L.MergeMaterialized),
             'noquant': (PG, 'ParamsGenerator._get_params_for_no_quant_op', L.NoQuantOp)}
    out = []; found = {}
    def native_search(w):
        """a concrete failing input for a refuted helper obligation: the helper's native stand-in over its small scope (runs in a child process: TensorFlow is not loaded here yet)"""
        if w not in found:
            _G['search'] = w; found[w] = core.run_pool(_search, 2, 2)[0]
        return found[w]
    for w in which:
        rel, qual, spec = table[w]
        if emit:
            for o in L.verify(rep, P, core.Fn(rel, qual), spec(), fallback=lambda label, w=w: native_search(w)): out.append((o.id, o.status))
        else:
            try:
                E = L.run_function(core.Fn(rel, qual, src_override=src), spec())
                out += [(ob.label, st) for ob, st, dt, det, mv in pyvc.decide_parallel(E, E.spec, timeout=20000)]
            except pyvc.Unsupported as e: out.append(('engine-subset', f'mutant leaves the engine subset: {e}'))
    return out

# ------------------------------------------------------------------------------------------------ canaries
def first_failure(m, family, cases, cap=60000):
    from replay import c03_native as N
    n = 0
    for c in cases:
        n += 1
        if n > cap: break
        try: f = N.FAMILY[family](m, c)
        except Exception as e: f = 'check raised ' + N.describe(e)
        if f: return f'{family} stand-in fails after {n} cases: {json.dumps(c, default=str)[:200]}: {f[:200]}'
    return None

def canaries(rep, m, fns, proved):
    from replay import c03_native as N
    SRQ_OUT = ('      transformations = [_QuantTransformation.ADD_DEQUANTIZE]\n  # Check if DRQ.', '      transformations = [_QuantTransformation.NO_QUANTIZE]\n  # Check if DRQ.')
    DRQ_W = ('    if is_inbounding_tensor and is_constant:\n      transformations = [_QuantTransformation.QUANTIZE_TENSOR]\n    else:\n      transformations = [_QuantTransformation.NO_QUANTIZE]\n  elif (\n      op_quant_config.weight_tensor_config is not None',
             '    if is_inbounding_tensor and is_constant:\n      transformations = [_QuantTransformation.ADD_DEQUANTIZE]\n    else:\n      transformations = [_QuantTransformation.NO_QUANTIZE]\n  elif (\n      op_quant_config.weight_tensor_config is not None')
    def mode_check(mm): return [oid for oid, st in mode_table(rep, mm, fns, emit=False).items() if st != core.PROVED and oid in proved]
    def mat_check(mm): return first_failure(mm, 'materialize', N.materialize_cases())
    def alg_check(mm): return first_failure(mm, 'algebra', N.algebra_cases(3))
    CAN = [
        ('get_tensor_transformations: SRQ output -> [NO_QUANTIZE]', 'mmu', SRQ_OUT, [('mode-table obligations', mode_check), ('materialize_standard_op stand-in', mat_check)]),
        ('get_tensor_transformations: DRQ constant weight -> [ADD_DEQUANTIZE]', 'mmu', DRQ_W, [('mode-table obligations', mode_check)]),
        ('_tensor_indices_with_dtype: dtype test dropped (every operand kept)', 'mmu', ('    if tensor.type in tensor_dtype_codes:\n', '    if True:\n'),
         [('pyvc _tensor_indices_with_dtype', lambda mm, s: [l for l, st in pyvc_helpers(rep, False, s, ('tiwd',)) if st != 'proved']), ('materialize_standard_op stand-in', mat_check)]),
        ('_add_non_match_tensors_to_ignored_lists: non-float32 inputs no longer added to the ignore list', 'mmu', ('  inputs_to_ignore = list(input_indices - inputs_to_keep)', '  inputs_to_ignore = list(inputs_to_ignore)'),
         [('pyvc _add_non_match_tensors_to_ignored_lists', lambda mm, s: [l for l, st in pyvc_helpers(rep, False, s, ('anm',)) if st != 'proved'][:4]),
          ('ignored-lists stand-in', lambda mm: first_failure(mm, 'ignored-lists', N.helper_cases_ignored_lists())), ('materialize_standard_op stand-in', mat_check)]),
        ('_split_tensors_by_indices: -1 operands no longer skipped', 'mmu', ('    if tensor_index == -1:\n      continue\n    if i in indices:', '    if False:\n      continue\n    if i in indices:'),
         [('pyvc _split_tensors_by_indices', lambda mm, s: [l for l, st in pyvc_helpers(rep, False, s, ('split',)) if st != 'proved'][:4])]),
        ('_merge_materialized_tensors: output start index ignores the ignored inputs', 'mmu', ('  output_start_idx = num_inputs - len(inputs_to_ignore)', '  output_start_idx = num_inputs'),
         [('pyvc _merge_materialized_tensors', lambda mm, s: [l for l, st in pyvc_helpers(rep, False, s, ('merge',)) if st != 'proved'][:4]), ('merge stand-in', lambda mm: first_failure(mm, 'merge', N.merge_cases())),
          ('materialize_standard_op stand-in', mat_check)]),
        ('_materialize_ignored_tensors: NO_QUANTIZE -> ADD_QUANTIZE', 'mmu', ('        transformations=[qtyping.QuantTransformation.NO_QUANTIZE],\n    )\n    if is_inbounding_tensor:', '        transformations=[qtyping.QuantTransformation.ADD_QUANTIZE],\n    )\n    if is_inbounding_tensor:'),
         [('pyvc _materialize_ignored_tensors', lambda mm, s: [l for l, st in pyvc_helpers(rep, False, s, ('ignored',)) if st != 'proved'][:4]), ('materialize_standard_op stand-in', mat_check)]),
        ('_apply_vertical_optimization: requantize branch dropped', 'tig', ('      elif check_replace_dq_q_with_rq(producer_trans_rule, trans_rule):', '      elif False:'), [('dtype-algebra stand-in', alg_check)]),
        ('_apply_vertical_optimization: requantize ADD_QUANTIZE gets the producer consumer list', 'tig',
         ('                qtyping.QuantTransformation.ADD_QUANTIZE,\n                trans_rule.tensor_id,\n                trans_rule.producer,\n                trans_rule.consumers,',
          '                qtyping.QuantTransformation.ADD_QUANTIZE,\n                trans_rule.tensor_id,\n                trans_rule.producer,\n                producer_trans_rule.consumers,'), [('dtype-algebra stand-in', alg_check)]),
        ('check_dq_q_elimination: parameters no longer compared', 'tig', ('  is_same_parameters = producer_inst.parameters == consumer_inst.parameters\n  return (\n      is_dequantize_in_producer\n      and is_quantize_in_consumer\n      and is_same_parameters\n  )',
          '  is_same_parameters = True\n  return (\n      is_dequantize_in_producer\n      and is_quantize_in_consumer\n      and is_same_parameters\n  )'), [('dtype-algebra stand-in', alg_check)]),
        ('_get_params_for_no_quant_op: NO_QUANTIZE -> ADD_QUANTIZE', 'pg', ('          transformations=[_QuantTrans.NO_QUANTIZE],', '          transformations=[_QuantTrans.ADD_QUANTIZE],'),
         [('pyvc _get_params_for_no_quant_op', lambda mm, s: [l for l, st in pyvc_helpers(rep, False, s, ('noquant',)) if st != 'proved'][:4]), ('no-quant stand-in', lambda mm: first_failure(mm, 'noquant', N.noquant_cases()))]),
        ('generate_quantization_parameters: NO_QUANTIZE test inverted', 'pg', ('        if algorithm_name == algorithm_manager.AlgorithmName.NO_QUANTIZE:', '        if algorithm_name != algorithm_manager.AlgorithmName.NO_QUANTIZE:'),
         [('routing AST obligations', lambda mm, s: [k for k, (ok, why) in routing_ast(core.Fn(PG, 'ParamsGenerator.generate_quantization_parameters', src_override=s)).items() if not ok]),
          ('routing stand-in', lambda mm: first_failure(mm, 'routing', N.routing_cases(2)))]),
        ('quantize_tensor: writes the buffer before the tensor\'s own', 'qten', ('      transformation_input.buffers[tensor.buffer].data = _pack_data(', '      transformation_input.buffers[tensor.buffer - 1].data = _pack_data('),
         [('frame AST obligations', lambda mm, s: [k for k, (ok, why) in frame_ast(core.Fn(QTEN, 'quantize_tensor', src_override=s)).items() if not ok]), ('frame stand-in', lambda mm: first_failure(mm, 'frame', N.frame_cases()))]),
        ('quantize_tensor: buffer-0 guard dropped', 'qten', ('  if tensor.buffer:\n', '  if True:\n'),
         [('frame AST obligations', lambda mm, s: [k for k, (ok, why) in frame_ast(core.Fn(QTEN, 'quantize_tensor', src_override=s)).items() if not ok]), ('frame stand-in', lambda mm: first_failure(mm, 'frame', N.frame_cases()))]),
        ('quantize_tensor: retypes tensor 0 instead of the target', 'qten', ('    tensor.type = quant_params_to_tflite_type(\n', '    transformation_input.subgraph.tensors[0].type = quant_params_to_tflite_type(\n'),
         [('frame AST obligations', lambda mm, s: [k for k, (ok, why) in frame_ast(core.Fn(QTEN, 'quantize_tensor', src_override=s)).items() if not ok]), ('frame stand-in', lambda mm: first_failure(mm, 'frame', N.frame_cases()))]),
    ]
    import inspect
    for name, which, (a, b), checks in CAN:
        src = core.read_source(N.REL[which])
        if src.count(a) != 1: rep.canary(name, False, f'mutation site found {src.count(a)} times (stale canary)'); continue
        msrc = src.replace(a, b, 1)
        try: mm = m.variant(**{which: N.exec_module(which, msrc)})
        except Exception as e: rep.canary(name, True, f'mutant rejected while loading: {N.describe(e)}'); continue
        killed = []
        for label, chk in checks:
            try: r = chk(mm, msrc) if len(inspect.signature(chk).parameters) == 2 else chk(mm)
            except Exception as e: r = f'check crashed on the mutant: {N.describe(e)}'
            if r: killed.append(f'{label}: {str(r)[:260]}')
        rep.canary(name, bool(killed), ' || '.join(killed) if killed else 'every re-run obligation / stand-in still passes on the mutant')

# ------------------------------------------------------------------------------------------------ run
def resolution_obligations(rep):
    """`the mode its recipe rule selected`: which rule that is, is decided by RecipeManager.get_quantization_configs -- its contract (last applicable rule over the ordered
    view; an unsupported rule is skipped, not a stop) is re-generated and re-discharged here from the current source, not cited from C11"""
    from props import C11 as _c11
    from contracts import recipe as _recipe
    from vlib import pyvc
    pyvc.verify(rep, P, core.Fn(_c11.RM, 'RecipeManager.get_quantization_configs'), _recipe.GetConfigs(), fallback=lambda label: _c11.search(label, 2, 7))

def run(rep):
    from props import graphcommon as gc
    t_start = time.time(); phases = {}
    def mark(name, t0): phases[name] = round(time.time() - t0, 1)
    # ---- pyvc first (fork pools before TensorFlow is loaded into this process)
    t0 = time.time(); pyvc_helpers(rep); mark('pyvc list helpers + no-quant op', t0)
    t0 = time.time(); gc.dtype_tables(rep, P); gc.insert_obligations(rep, P); gc.performer_obligations(rep, P); gc.vertical_obligations(rep, P); gc.tensorinfo_obligations(rep, P); gc.produce_obligations(rep, P); gc.compose_obligations(rep, P); resolution_obligations(rep); mark('dtype tables + insert_quant / insert_dequant + vertical optimisation (graphcommon)', t0)
    from replay import c03_native as N
    t0 = time.time(); m = N.load(); mark('loading the real modules', t0)
    F = lambda rel, q: rep.fn(core.Fn(rel, q))
    fns = dict(gtt=F(MMU, 'get_tensor_transformations'), mso=F(MMU, 'materialize_standard_op'), anm=F(MMU, '_add_non_match_tensors_to_ignored_lists'), mit=F(MMU, '_materialize_ignored_tensors'),
               mmt=F(MMU, '_merge_materialized_tensors'), tiwd=F(MMU, '_tensor_indices_with_dtype'), split=F(MMU, '_split_tensors_by_indices'),
               wrap=F(MMU, '_get_tensor_transformation_params_wrapper'), gttp=F(MMU, 'get_tensor_transformation_params'),
               nq=F(PG, 'ParamsGenerator._get_params_for_no_quant_op'), gen=F(PG, 'ParamsGenerator.generate_quantization_parameters'), cbs=F(PG, 'ParamsGenerator._check_buffer_sharing'),
               ctp=F(PG, '_compatible_tensor_params'), q2i=F(TIG, 'TransformationInstructionsGenerator._quant_params_to_transformation_insts'),
               avo=F(TIG, 'TransformationInstructionsGenerator._apply_vertical_optimization'), grp=F(TIG, 'TransformationInstructionsGenerator._group_consumer_transformations'),
               pv=F(TIG, 'TransformationInstructionsGenerator._produce_transformation_for_vertical_opt'), chk=F(TIG, 'TransformationInstructionsGenerator._check_tensor_transformation_instructions_valid'),
               c1=F(TIG, 'check_horizontal_optimization'), c2=F(TIG, 'check_dq_q_elimination'), c3=F(TIG, 'check_replace_dq_q_with_rq'), c4=F(TIG, 'check_dq_no_quant_elimination'),
               qt=F(QTEN, 'quantize_tensor'), pack=F(QTEN, '_pack_data'), perf=F(PERF, 'TransformationPerformer.__init__'), app=F(PERF, 'TransformationPerformer._apply_transformations'),
               fc=F(NMM, 'materialize_fc_conv'), bias=F(NMM, '_materialize_bias_for_conv_ops'), fpc=F(FC_, 'materialize_fc_conv'), fpt=F(FC_, 'materialize_conv2d_transpose'))
    # ---- (i)
    mode_table(rep, m, fns); admitted(rep, m, fns)
    # ---- (iii) routing + (vi) frame: AST obligations
    ast_obligations(rep, fns['gen'], routing_ast(fns['gen']), 'routing-ast')
    ast_obligations(rep, fns['qt'], frame_ast(fns['qt']), 'frame-ast')
    t0 = time.time(); f = N.performer_skips_no_quantize(m)
    ob = core.Ob(f'{P}/transformation_performer.TransformationPerformer.__init__/NO_QUANTIZE-is-never-applied', fns['perf'], 'exhaustive-native', core.REFUTED if f else core.PROVED, time.time() - t0, detail=f or '',
                 clause='NO_QUANTIZE is in neither application pass of the real performer and has no registered transformation; transform_graph with NO_QUANTIZE instructions leaves a model unchanged')
    if f: ob.replay = dict(confirmed=True, inputs=dict(family='performer', case={}), observed=f)
    rep.add(ob)
    # ---- bounded stand-ins
    mn, mnf, mfails, mstats = bounded(rep, m, 'materialize', N.materialize_cases(), fns['mso'], 'min_max_quantize_utils.materialize_standard_op (+ _add_non_match_tensors_to_ignored_lists, _split_tensors_by_indices, _materialize_ignored_tensors, _merge_materialized_tensors)',
            'synthetic ops from real schema objects: (ADD | SRQ a8w8 | each of the 3 constraints), (ADD | SRQ a16w8), (FULLY_CONNECTED | SRQ a16w8, DRQ w8, weight-only w4) with NO_CONSTRAIN; 1-3 inputs each in {float activation, float constant, '
            'int32 activation, int32 constant, -1}; 1 output in {float, int32, -1} or 2 outputs in {float, int32}; every subset of input and of output positions as ignore lists; dtype of subgraph_tensors[-1] varied when an input is -1; exhaustive',
            f'{P}/min_max_quantize_utils.materialize_standard_op/aligned-and-nonfloat-or-ignored-untouched', 'result aligned with the operands != -1 (inputs then outputs); non-float32 or ignored operand -> [NO_QUANTIZE] without parameters; other operands -> mode table, parameters of the configured width',
            note='ValueError / KeyError (single-tensor constraints, missing calibration entry of a constant under SAME_AS_INPUT_SCALE) count as refusals, not as malformed results. Observation (C05 territory, not a C03 clause): under SAME_AS_OUTPUT_SCALE a float constant input '
                 'receives the output parameters WITHOUT quantized data (note:constant-without-quantized-data).')
    for fam, gen, fn, name, scope, clause in (
        ('ignored-lists', N.helper_cases_ignored_lists, fns['anm'], 'min_max_quantize_utils._add_non_match_tensors_to_ignored_lists (native cross-check of the pyvc contract)', '0-3 inputs over {-1, float, int32, float} tensors, 0-2 outputs, every subset of positions already ignored; exhaustive',
         'returned sets = positions whose tensor is not float32 plus the already ignored positions, without duplicates (positions of -1 operands are irrelevant downstream)'),
        ('merge', N.merge_cases, fns['mmt'], 'min_max_quantize_utils._merge_materialized_tensors (native cross-check of the pyvc contract)', '0-3 present inputs, 0-2 present outputs, every subset of ignored positions, with and without -1 padding operands; exhaustive',
         'ignored and non-ignored entries are interleaved back into operand order'),
        ('tiwd', N.tiwd_cases, fns['tiwd'], 'min_max_quantize_utils._tensor_indices_with_dtype (native cross-check of the pyvc contract)', '0-3 entries over {-1, 0, 1, 2}, 5 dtype-code lists; exhaustive', 'ascending positions whose tensor dtype is listed'),
        ('split', N.split_cases, fns['split'], 'min_max_quantize_utils._split_tensors_by_indices (native cross-check of the pyvc contract)', '0-3 operands over {-1, 0, 1, 2}, every subset of positions (and None), inputs and outputs; exhaustive', 'operands != -1 split in order; updated indices are positions among the operands != -1'),
        ('noquant', N.noquant_cases, fns['nq'], 'params_generator.ParamsGenerator._get_params_for_no_quant_op (native cross-check of the pyvc contract)', '0-3 inputs over 5 operand kinds incl. -1, 0-2 outputs over 3 kinds; exhaustive', 'one [NO_QUANTIZE] entry without parameters per operand != -1, inputs then outputs'),
        ('routing', lambda: N.routing_cases(3), fns['gen'], 'params_generator.ParamsGenerator.generate_quantization_parameters (routing; recipe manager and materialize function are recording stubs)', 'chains of 1-3 operators, each of kind unknown op code | known op + no_quantize rule | known op + quantizing rule; exhaustive',
         'the materialize function is called exactly for the selected operators; every operand of the others is [NO_QUANTIZE] without parameters in the result'),
        ('frame', N.frame_cases, fns['qt'], 'transformations.quantize_tensor.quantize_tensor (frame, real flatbuffer objects)', '6-tensor / 6-buffer / 2-op model; target in {tensor on buffer 0, constant, activation with empty buffer, odd-length constant} x parameters in {4,8,16,32-bit uniform, 8-bit without data, 8-bit with quantized dimension, fp16, fp16 without data}; exhaustive',
         'only the target tensor\'s type / quantization and (iff tensor.buffer != 0 and data given) buffers[tensor.buffer].data change; no object is replaced'),
        ('bias', N.bias_cases, fns['fc'], 'naive_min_max_quantize.materialize_fc_conv (+ _materialize_bias_for_conv_ops)', 'FULLY_CONNECTED / CONV_2D / DEPTHWISE_CONV_2D x {SRQ a8w8, SRQ a16w8, DRQ w8, weight-only} x bias present / absent; exhaustive over that table',
         'SRQ: activations of the activation width, integer weight, 32-bit (64-bit for 16-bit activations) bias; DRQ: float activations, integer weight, float bias; weight-only: float activations, weight behind ADD_DEQUANTIZE, float bias'),
        ('fp16', N.fp16_cases, fns['fpc'], 'float_casting.materialize_fc_conv / materialize_embedding_lookup / materialize_conv2d_transpose (through the real algorithm registry)',
         'FULLY_CONNECTED / CONV_2D / DEPTHWISE_CONV_2D / CONV_2D_TRANSPOSE with and without bias, EMBEDDING_LOOKUP; fp16 weight-only config; exhaustive over that table',
         'weight -> [ADD_DEQUANTIZE] with 16-bit non-linear parameters holding the float16 data; every other operand with an entry -> [NO_QUANTIZE] without parameters')):
        bounded(rep, m, fam, gen(), fn, name, scope, f'{P}/{fn.name}/bounded:{fam}', clause)
    n, nf, fails, stats = bounded(rep, m, 'algebra', N.algebra_cases(4), fns['q2i'], 'transformation_instruction_generator._quant_params_to_transformation_insts (+ _group_consumer_transformations, _produce_*, _apply_vertical_optimization, check_*, validity check)',
            'one tensor; producer in {none, NO_QUANTIZE, ADD_DEQUANTIZE(pA), ADD_DEQUANTIZE(pB)}; 1-4 consumers each in {NO_QUANTIZE, ADD_QUANTIZE(pA), ADD_QUANTIZE(pB)} and, for a producer-less (constant) tensor, also {QUANTIZE_TENSOR(pA), QUANTIZE_TENSOR(pB), ADD_DEQUANTIZE(pA)}; '
            'x first consumer listed twice (repeated operand) x graph-output marker; exhaustive',
            f'{P}/transformation_instruction_generator.TransformationInstructionsGenerator._quant_params_to_transformation_insts/dtype-algebra',
            'unless the generator raises ValueError or the real upstream guard (_check_buffer_sharing on the real buffer_to_tensors) rejects the parameters: InstValid, laminar, every consumer reads the class its own transformation demands, '
            'T stays in the producer\'s class, inserted Q/DQ convert between their neighbours\' classes, each consumer is in exactly one rewiring instruction iff it needs one',
            note='abstract interpretation with the performer\'s retargeting rule (replay/c03_native.interpret).')
    if stats.get('raise:ValueError:list.remove'):
        rep.notes.append(f"observation (not a C03 violation): {stats['raise:ValueError:list.remove']} cases of the dtype-algebra scope make _apply_vertical_optimization raise ValueError('list.remove(x): x not in list') - a repeated operand "
                         "(same op listed twice) in the requantize branch, e.g. producer ADD_DEQUANTIZE(pA), consumer op 1 listed twice with ADD_QUANTIZE(pB); a raise, not a malformed result")
    rep.cover('dtype algebra: some case is well-formed', stats.get('well-formed', 0) > 0)
    g, tp, entries, pr, PP = N.build_algebra(m, dict(producer=['DQ', 'A'], consumers=[['Q', 'B'], ['NOQ', None], ['Q', 'A']], dup=False, graph_output=True))
    names = [(i.transformation.name, sorted(i.consumers)) for i in g._quant_params_to_transformation_insts(tp).instructions]
    rep.cover('dtype algebra: requantize, DQ/no-quant and DQ/Q-elimination branches are all reached by one case',
              names == [('QUANTIZE_TENSOR', [1]), ('ADD_QUANTIZE', [1]), ('ADD_DEQUANTIZE', [-1, 2]), ('QUANTIZE_TENSOR', [3])])
    rep.cover('materialize stand-in: most cases return a result (are not refusals)', mstats.get('returned', 0) * 2 > mn)
    mark('native families (mode table, AST obligations, stand-ins)', t_start + sum(phases.values()))
    # ---- canaries
    proved = {o.id for o in rep.obs if o.status == core.PROVED}
    t0 = time.time(); canaries(rep, m, fns, proved); mark('canaries', t0)
    rep.extra['phase_seconds'] = phases
    # ---- trusted base / assumptions
    rep.trust('CPython executes the real functions; dataclasses, enum and numpy are the real library code; flatbuffer object-API classes are plain attribute bags')
    rep.trust('parametricity: an execution of get_tensor_transformations in which no opaque integer is inspected is the same for every integer value (the Opaque class raises on every inspection)')
    rep.trust('serializer fidelity: tfl_flatbuffer_utils.write_model / flatbuffer Pack write every buffer whose BufferT.data object was not assigned byte-identically; end-to-end byte identity of the constants of unselected ops = '
              'frame of quantize_tensor (proved syntactically + executed) + NO_QUANTIZE never applied (proved) + this')
    rep.trust('the ghost counters of contracts/c03_lists.py are definitional (cnt(0) = 0, cnt(k+1) = cnt(k) + [pred(k)]); all inductive facts about them are loop-invariant conjuncts and therefore proved')
    rep.assume('constant tensors (buffer data present) have no producer, so QUANTIZE_TENSOR / ADD_DEQUANTIZE as a consumer transformation only meets producer-less tensors (input model well-formed)')
    rep.assume('constraints (SAME_AS_INPUT_SCALE / SAME_AS_OUTPUT_SCALE) are only combined with operators that are not weight operators, as in naive_min_max_quantize')
    rep.assume('_merge_materialized_tensors is proved under the preconditions of its single call site: |ignored_in| = |inputs_to_ignore| = number of ignored positions below NI (same for outputs), '
               '|tensor_params| = number of non-ignored present operands.  They follow from the proved postconditions of _split_tensors_by_indices (updated indices strictly increasing, < NI) and '
               '_materialize_ignored_tensors (one entry per tensor), from the counting identity #{i < N | i in L} = |L| for a strictly increasing L within [0, N) (arithmetic, not machine-checked), and from '
               '_materialize_standard_op_* returning one entry per non-ignored tensor (bounded stand-in only)')
    rep.assume('NOT covered by a discharged obligation: see coverage.not_covered')
    rep.extra['not_covered'] = [
        'materialize_standard_op as a composition (its helpers _tensor_indices_with_dtype, _add_non_match_tensors_to_ignored_lists, _split_tensors_by_indices, _materialize_ignored_tensors, _merge_materialized_tensors are proved; the glue between them and _materialize_standard_op_{no_constraint, same_as_input_scale, same_as_output_scale} / _get_tensor_transformation_params_wrapper are bounded stand-ins only)',
        'the per-operator materialize functions of naive_min_max_quantize other than materialize_fc_conv (bounded) - their ignore lists / constraints are not checked against the TFLite operand roles',
        'float_casting.materialize_* (fp16 weight-only): bounded stand-in only; the fp16 dtype table (nonlinear_quant_params_to_tflite_type) and the insert_dequant postcondition are proved',
        'recipe resolution to no_quantize (unmatched scope, unsupported op / config): C11 / C13',
        'dtype algebra of the instruction list (_quant_params_to_transformation_insts and helpers): bounded stand-in only (<= 4 consumers, 2 parameter classes, chains of length 1)',
        'TransformationPerformer._apply_single_transformation / _update_instructions implementing the retargeting rule the abstract interpretation assumes: C01 / C02 (A.7)',
        'composition across tensors (an operator sees, on EVERY operand simultaneously, the dtype of its mode) is not stated as one end-to-end obligation; it is the conjunction of (ii)/(iv)/(v) per tensor',
        'serializer fidelity (trusted)']
    rep.extra['runtime_s'] = round(time.time() - t_start, 1)

def replay(payload):
    from replay import c03_native as N
    inp = payload.get('inputs') or {}
    print('replaying', payload.get('obligation'), json.dumps(inp, default=str)[:600])
    if 'family' not in inp: print('no native input recorded for this obligation'); return 0
    m = N.load(); fails, obs = N.run_case(m, inp['family'], inp.get('case') or {})
    print('observed:', obs)
    return 1 if fails else 0
