"""Obligations shared by C01 / C02 / C03 / C19: the graph-rewriting carriers under the sidecar contracts of contracts/graph.py."""
import z3
from vlib import core, pyvc
from contracts import graph, performer, names, signature, tensorinfo, vertical, compose
from replay import graph_native

TU, DI, QI, QT = 'transformations/transformation_utils.py', 'transformations/dequant_insert.py', 'transformations/quant_insert.py', 'transformations/quantize_tensor.py'

# which postcondition labels carry which property
SEL = {
 'C01': lambda l: any(k in l for k in ('wf:', 'op_id', 'ops-len', 'tensors-len', 'new-op', 'result', 'new-tensor', 'graph-outputs-len', 'unique')),
 'C02': lambda l: any(k in l for k in ('skeleton', 'only-listed', 'graph-outputs', 'graph-inputs', 'tensors-prefix', 'new-tensor', 'new-op-wiring', 'result')),
 'C03': lambda l: any(k in l for k in ('dtypes', 'dtype', 'table', 'widths', 'raises', 'only-up-to', 'new-op-code')),
 'C19': lambda l: any(k in l for k in ('opcodes-extended', 'tensors-prefix', 'skeleton-objects', 'existing-entries', 'grows', 'found-implies', 'prefix-kept', 'tensor-list-object')),
}
_cases = {}
def _search(kind, label):
    """bounded native search for an input on which the real insert_* violates a clause of the same family as `label`"""
    if kind not in _cases: _cases[kind] = graph_native.enumerate_insert_cases(2, 2)
    fam = 'C01' if ('wf:' in label or 'op_id' in label or 'IndexError' in label) else 'C02'
    first = None
    for case in _cases[kind]:
        r = graph_native.replay_insert(kind, case)
        if r['confirmed']:
            first = first or r
            if any(v.startswith(fam) for v in r['violated']): return r
    return first

def insert_obligations(rep, prop, exclude=()):
    sel = SEL[prop]; obs = []
    for kind, rel, qual in (('dequant', DI, 'insert_dequant'), ('quant', QI, 'insert_quant')):
        spec = graph.Insert(kind)
        obs += pyvc.verify(rep, prop, core.Fn(rel, qual), spec, select=sel, exclude=exclude,
                           replay=lambda mv, label, kind=kind: graph_native.replay_insert(kind, mv),
                           fallback=lambda label, kind=kind: _search(kind, label))
    return obs

# ------------------------------------------------------------------------------------------------ graph facts every instruction is built from (DESIGN A.8)
TIG = 'transformation_instruction_generator.py'; TIG_Q = 'TransformationInstructionsGenerator._tensor_info_generator'
def _ti_native(case):
    """the REAL generator on a small subgraph (ops = [(inputs, outputs)], n tensors, graph outputs) against the A.8 contract, natively"""
    import types, importlib
    core.stub_package(); g = importlib.import_module('ai_edge_quantizer.transformation_instruction_generator')
    NS = types.SimpleNamespace; nt = case['n_tensors']
    sg = NS(tensors=[NS(name=('t%d' % k).encode()) for k in range(nt)], operators=[NS(inputs=list(i), outputs=list(o)) for i, o in case['ops']], outputs=list(case['outputs']))
    self_ = NS(TensorGraphInfo=g.TransformationInstructionsGenerator.TensorGraphInfo)
    try: recs = list(g.TransformationInstructionsGenerator._tensor_info_generator(self_, case.get('subgraph_id', 3), sg))
    except Exception as e: return dict(confirmed=True, inputs=case, violated=[f'raised {type(e).__name__}: {e}'])
    bad = []
    if len(recs) != nt: bad.append(f'{len(recs)} records for {nt} tensors')
    for t, (name, info) in enumerate(recs[:nt]):
        prod = next((j for j, (i, o) in enumerate(case['ops']) if t in o), -1)
        cons = ([-1] if t in case['outputs'] else []) + [j for j, (i, o) in enumerate(case['ops']) if t in i]
        if name != 't%d' % t or info.tensor_id != t or info.subgraph_id != case.get('subgraph_id', 3): bad.append(f'record {t}: name / tensor_id / subgraph_id wrong ({name}, {info.tensor_id}, {info.subgraph_id})')
        if info.producer != prod: bad.append(f'tensor {t}: producer {info.producer}, expected the first operator that outputs it: {prod}')
        if list(info.consumers) != cons: bad.append(f'tensor {t}: consumers {list(info.consumers)}, expected {cons} (marker first, then each reader once in ascending order)')
    return dict(confirmed=bool(bad), inputs=case, violated=bad)
def _ti_search(label=None):
    import itertools
    for nt in (1, 2, 3):
        sets = [list(c) for r in range(0, 3) for c in itertools.product(range(nt), repeat=r)]
        for n_ops in (0, 1, 2):
            for ops in itertools.product([(i, o) for i in sets for o in sets if len(o) <= 1], repeat=n_ops):
                for outs in ([], [0], [nt - 1], [nt - 1, 0]):
                    r = _ti_native(dict(n_tensors=nt, ops=[(list(i), list(o)) for i, o in ops], outputs=outs))
                    if r['confirmed']: return r
    return None
TI_CANARIES = [('_tensor_info_generator: producer = LAST operator that outputs the tensor (break dropped)', "          producer = op_id\n          break\n", "          producer = op_id\n"),
               ('_tensor_info_generator: graph-output marker appended instead of put first', "        consumers.insert(0, -1)", "        consumers.append(-1)"),
               ('_tensor_info_generator: readers collected from op.outputs', "          if tensor_id in op.inputs\n", "          if tensor_id in op.outputs\n"),
               ('_tensor_info_generator: record carries the operator count instead of the subgraph id', "          tensor_id, subgraph_id, producer, consumers", "          tensor_id, len(subgraph.operators), producer, consumers")]
def tensorinfo_obligations(rep, prop):
    """every instruction's (producer, consumers, graph-output marker) comes from this generator: InstValid, the precondition of insert_* and of the performer"""
    obs = pyvc.verify(rep, prop, core.Fn(TIG, TIG_Q), tensorinfo.TensorInfoGenerator(), select=None, replay=lambda mv, label: _ti_search(label) or dict(confirmed=False, inputs=mv), fallback=_ti_search)
    src = core.read_source(TIG)
    sel = TI_CANARIES if rep.tier == 'thorough' else [TI_CANARIES[(rep.seed + k) % len(TI_CANARIES)] for k in (0, 1)]
    for name, a, b in sel:
        if a not in src: rep.canary(name, False, 'mutation site not found (stale canary)'); continue
        try:
            E = pyvc.run_function(core.Fn(TIG, TIG_Q, src_override=src.replace(a, b)), tensorinfo.TensorInfoGenerator())
            E.obs = [ob for ob in E.obs if ob.label.startswith(('return:', 'loop'))]
            bad = [ob.label for ob, st, dt, det, mv in pyvc.decide_parallel(E, E.spec, timeout=10000, canary=True) if st != 'proved']; rep.canary(name, bool(bad), str(bad[:3]))
        except pyvc.Unsupported as e: rep.canary(name, True, str(e))
    return obs

# ------------------------------------------------------------------------------------------------ vertical optimisation of the instruction generator
VO_Q = 'TransformationInstructionsGenerator._apply_vertical_optimization'
def _vo_mods():
    import importlib
    core.stub_package(); g = importlib.import_module('ai_edge_quantizer.transformation_instruction_generator'); qt = importlib.import_module('ai_edge_quantizer.qtyping'); import numpy as np
    mk = lambda s: qt.UniformQuantParams(8, None, np.array([s], dtype=np.float32), np.array([0], dtype=np.int64))
    return g, qt, {0: mk(0.5), 1: mk(0.5), 2: mk(0.25)}          # parameter objects 0 and 1 are EQUAL (distinct objects, same value), 2 differs
def _vo_native(case):
    """the REAL _apply_vertical_optimization on real TransformationInst objects against the contract text, natively.  case: producer=(tr, consumers, param key), rules=[(tr, consumers, param key)]"""
    g, qt, PAR = _vo_mods(); T = qt.QuantTransformation
    ptr, pcons, ppar = case['producer']; P = qt.TransformationInst(T(ptr), 7, 3, list(pcons), PAR[ppar])
    rules = [qt.TransformationInst(T(tr), 7, 3, list(cons), PAR[par]) for (tr, cons, par) in case['rules']]; before = [(r.transformation, list(r.consumers), r.parameters) for r in rules]
    try: out = g.TransformationInstructionsGenerator._apply_vertical_optimization(None, P, rules)
    except Exception as e: return dict(confirmed=True, inputs=case, violated=[f'raised {type(e).__name__}: {e}'])
    exp = []; pc = list(pcons)
    for r in rules:
        dq = T(ptr) == T.ADD_DEQUANTIZE; same = PAR[ppar] == r.parameters
        if dq and r.transformation in (T.ADD_QUANTIZE, T.NO_QUANTIZE):
            for c in r.consumers:
                if c in pc: pc.remove(c)
        if dq and r.transformation == T.ADD_QUANTIZE and same: exp.append(('new', T.QUANTIZE_TENSOR, r.consumers, r.parameters))
        elif dq and r.transformation == T.ADD_QUANTIZE: exp += [('new', T.QUANTIZE_TENSOR, r.consumers, PAR[ppar]), ('new', T.ADD_QUANTIZE, r.consumers, r.parameters)]
        elif dq and r.transformation == T.NO_QUANTIZE: exp.append(('new', T.ADD_DEQUANTIZE, r.consumers, PAR[ppar]))
        else: exp.append(('same', r))
    if pc: exp.insert(0, ('same', P))
    bad = []
    if len(out) != len(exp): bad.append(f'{len(out)} instructions, contract says {len(exp)}')
    for k, (o, e) in enumerate(zip(out, exp)):
        if e[0] == 'same':
            if o is not e[1]: bad.append(f'entry {k}: expected the original rule object')
        elif any(o is r for r in rules) or o is P or o.transformation != e[1] or list(o.consumers) != list(e[2]) or o.parameters is not e[3] and o.parameters != e[3] or (o.tensor_id, o.producer) != (7, 3):
            bad.append(f'entry {k}: got ({o.transformation}, consumers {list(o.consumers)}), contract says new ({e[1]}, consumers {list(e[2])})')
    if list(P.consumers) != pc: bad.append(f'producer rule consumers {list(P.consumers)}, contract says {pc}')
    if [(r.transformation, list(r.consumers), r.parameters) for r in rules] != before: bad.append('a consumer rule was modified')
    return dict(confirmed=bool(bad), inputs=case, violated=bad)
def _vo_search(label=None):
    import itertools
    clists = ([0], [0, 1], [1, 0, 1], []); rlists = ([0], [1], [0, 1], [2], [0, 0])
    for ptr, pcons, ppar in itertools.product((2, 1, 0), clists, (0,)):
        for nr in (1, 2):
            for rules in itertools.product([(tr, c, par) for tr in (1, 0, 2, 3) for c in rlists for par in (1, 2)], repeat=nr):
                if nr == 2 and (rules[0][0] not in (0, 1) or rules[1][1] not in ([0], [0, 1], [0, 0])): continue          # keep the two-rule scope small
                r = _vo_native(dict(producer=(ptr, list(pcons), ppar), rules=[(tr, list(c), par) for tr, c, par in rules]))
                if r['confirmed']: return r
    return None
def _vo_predicates(rep, prop):
    """contracts of the three predicates, decided by executing the real functions over their whole finite domain (5 x 5 transformations x equal / different parameters)"""
    g, qt, PAR = _vo_mods(); T = qt.QuantTransformation; DQ, Q, NO = T.ADD_DEQUANTIZE, T.ADD_QUANTIZE, T.NO_QUANTIZE
    ref = {'check_dq_q_elimination': lambda a, b, same: a == DQ and b == Q and same, 'check_replace_dq_q_with_rq': lambda a, b, same: a == DQ and b == Q and not same,
           'check_dq_no_quant_elimination': lambda a, b, same: a == DQ and b == NO}
    ok_enum = {t.name: t.value for t in T} == vertical.TR
    rep.add(core.Ob(f'{prop}/qtyping.QuantTransformation/enum-values-are-the-ones-the-contract-uses', None, 'exhaustive-native', core.PROVED if ok_enum else core.REFUTED, 0.0, clause=str(vertical.TR)))
    for name, f in ref.items():
        fn = rep.fn(core.Fn(TIG, name)); bad = []
        for a in T:
            for b in T:
                for par, same in ((1, True), (2, False)):
                    got = getattr(g, name)(qt.TransformationInst(a, 0, -1, [0], PAR[0]), qt.TransformationInst(b, 0, -1, [0], PAR[par]))
                    if bool(got) != bool(f(a, b, same)): bad.append((a.name, b.name, same, bool(got)))
        ob = core.Ob(f'{prop}/{fn.name}/predicate-contract', fn, 'exhaustive-native', core.PROVED if not bad else core.REFUTED, 0.0, detail=str(bad[:3]), clause='value == the contract used at the call site of _apply_vertical_optimization, for all 5 x 5 transformations x equal/different parameters')
        if bad: ob.replay = dict(confirmed=True, inputs=bad[0])
        rep.add(ob)
VO_CANARIES = [('_apply_vertical_optimization: membership guard of list.remove dropped in the elimination branch (the repaired defect class)',
                "      if check_dq_q_elimination(producer_trans_rule, trans_rule):\n        for consumer_id in trans_rule.consumers:\n          if consumer_id in producer_trans_rule.consumers:\n            producer_trans_rule.consumers.remove(consumer_id)",
                "      if check_dq_q_elimination(producer_trans_rule, trans_rule):\n        for consumer_id in trans_rule.consumers:\n          if True:\n            producer_trans_rule.consumers.remove(consumer_id)"),
               ('_apply_vertical_optimization: requantize emits ADD_DEQUANTIZE instead of ADD_QUANTIZE', "                qtyping.QuantTransformation.ADD_QUANTIZE,\n", "                qtyping.QuantTransformation.ADD_DEQUANTIZE,\n"),
               ('_apply_vertical_optimization: producer rule appended instead of put first', "      transformations.insert(0, producer_trans_rule)", "      transformations.append(producer_trans_rule)"),
               ('_apply_vertical_optimization: producer rule kept although it has no consumer left', "    if producer_trans_rule.consumers:\n      transformations.insert", "    if True:\n      transformations.insert")]
def vertical_obligations(rep, prop):
    obs = pyvc.verify(rep, prop, core.Fn(TIG, VO_Q), vertical.VerticalOptimization(), select=None, replay=lambda mv, label: _vo_search(label) or dict(confirmed=False, inputs=mv), fallback=_vo_search)
    for name, hyps, goal in vertical.pos_lemmas():
        sv = z3.Solver(); sv.set('timeout', 20000); sv.add(*hyps); sv.add(z3.Not(goal)); r = sv.check()
        rep.add(core.Ob(f'{prop}/spec-lemma/{name}', None, 'z3-lia(induction step)', core.PROVED if r == z3.unsat else (core.REFUTED if r == z3.sat else core.UNKNOWN), 0.0, clause=str(goal)))
    _vo_predicates(rep, prop)
    src = core.read_source(TIG)
    sel = VO_CANARIES if rep.tier == 'thorough' else [VO_CANARIES[(rep.seed + k) % len(VO_CANARIES)] for k in (0, 1)]
    for name, a, b in sel:
        if a not in src: rep.canary(name, False, 'mutation site not found (stale canary)'); continue
        try:
            E = pyvc.run_function(core.Fn(TIG, VO_Q, src_override=src.replace(a, b, 1)), vertical.VerticalOptimization())
            bad = [ob.label for ob, st, dt, det, mv in pyvc.decide_parallel(E, E.spec, timeout=10000, canary=True) if st != 'proved']; rep.canary(name, bool(bad), str(bad[:3]))
        except pyvc.Unsupported as e: rep.canary(name, True, str(e))
    return obs

PV_Q = 'TransformationInstructionsGenerator._produce_transformation_for_vertical_opt'
def _pv_native(case):
    """the REAL _produce_transformation_for_vertical_opt on real qtyping objects.  case: consumers=[(op id, [transformations], param key)], groups=[[positions]] or None (no depth 1)"""
    import types
    g, qt, PAR = _vo_mods(); T = qt.QuantTransformation
    cons = [qt.OpToTensorParams(subgraph_op_id=o, transformations=[T(t) for t in trs], parameters=PAR[pk]) for (o, trs, pk) in case['consumers']]
    param = qt.TensorTransformationParams(tensor_name='t', producer=None, consumers=cons)
    info = g.TransformationInstructionsGenerator.TensorGraphInfo(5, 0, 2, [c[0] for c in case['consumers']])
    self_ = types.SimpleNamespace(_tensor_name_to_graph_info={'t': info})
    cg = [[set(range(len(cons)))]] + ([[set(grp) for grp in case['groups']]] if case['groups'] is not None else [])
    try: out = g.TransformationInstructionsGenerator._produce_transformation_for_vertical_opt(self_, cg, param)
    except Exception as e: return dict(confirmed=True, inputs=case, violated=[f'raised {type(e).__name__}: {e}'])
    groups = case['groups'] or []; bad = []
    if len(out) != len(groups): bad.append(f'{len(out)} instructions for {len(groups)} groups')
    for k, (inst, grp) in enumerate(zip(out, groups)):
        ops = [cons[i].subgraph_op_id for i in grp]
        if sorted(inst.consumers) != sorted(ops): bad.append(f'group {k}: consumers {list(inst.consumers)}, contract says the operator ids of the members {sorted(ops)} (each once)')
        elif (inst.tensor_id, inst.producer) != (5, 2): bad.append(f'group {k}: tensor id / producer ({inst.tensor_id}, {inst.producer}) not taken from the graph-info table (5, 2)')
        else:
            first = next(i for i in grp if cons[i].subgraph_op_id == inst.consumers[0])
            if inst.transformation != cons[first].transformations[0] or inst.parameters is not cons[first].parameters: bad.append(f'group {k}: transformation / parameters are not those of the member enumerated first (position {first})')
    return dict(confirmed=bool(bad), inputs=case, violated=bad)
def _pv_search(label=None):
    import itertools
    pool = [(10, [1], 0), (7, [2, 1], 2), (3, [0], 1), (12, [1, 2], 2)]
    for n in (1, 2, 3, 4):
        cons = pool[:n]
        parts = [None, [list(range(n))]] + ([[[0], list(range(1, n))], [list(range(1, n)), [0]], [[n - 1], list(range(n - 1))]] if n >= 2 else []) + ([[[i] for i in range(n)]] if n >= 2 else [])
        for grp in parts:
            r = _pv_native(dict(consumers=[(o, list(t), k) for o, t, k in cons], groups=grp))
            if r['confirmed']: return r
    return None
PV_CANARIES = [('_produce_transformation_for_vertical_opt: positions instead of operator ids', "          op_idx_list.append(param.consumers[index].subgraph_op_id)\n        transformations_available_for_vertical_optimization.append(", "          op_idx_list.append(index)\n        transformations_available_for_vertical_optimization.append("),
               ('_produce_transformation_for_vertical_opt: producer and tensor id swapped', "                tensor_info.tensor_id,\n                tensor_info.producer,\n                op_idx_list,\n                param.consumers[op_list[0]].parameters,\n            )\n        )\n    return transformations_available_for_vertical_optimization",
                "                tensor_info.producer,\n                tensor_info.tensor_id,\n                op_idx_list,\n                param.consumers[op_list[0]].parameters,\n            )\n        )\n    return transformations_available_for_vertical_optimization")]
def produce_obligations(rep, prop):
    obs = pyvc.verify(rep, prop, core.Fn(TIG, PV_Q), vertical.ProduceForVerticalOpt(), select=None, fallback=_pv_search)
    src = core.read_source(TIG)
    for name, a, b in (PV_CANARIES if rep.tier == 'thorough' else PV_CANARIES[rep.seed % 2:rep.seed % 2 + 1]):
        if a not in src: rep.canary(name, False, 'mutation site not found (stale canary)'); continue
        try:
            E = pyvc.run_function(core.Fn(TIG, PV_Q, src_override=src.replace(a, b, 1)), vertical.ProduceForVerticalOpt())
            bad = [ob.label for ob, st, dt, det, mv in pyvc.decide_parallel(E, E.spec, timeout=10000, canary=True) if st != 'proved']; rep.canary(name, bool(bad), str(bad[:3]))
        except pyvc.Unsupported as e: rep.canary(name, True, str(e))
    return obs

PO_Q = 'TransformationInstructionsGenerator._produce_consumer_transformations_unavailable_for_vertical_opt'
def _po_native(case):
    """the REAL second builder on real qtyping objects.  case: consumers=[(op id, [transformations], param key)], depths=[[[positions]]] = consumer_group[1:], natively against the contract text"""
    import types
    g, qt, PAR = _vo_mods(); T = qt.QuantTransformation
    cons = [qt.OpToTensorParams(subgraph_op_id=o, transformations=[T(t) for t in trs], parameters=PAR[pk]) for (o, trs, pk) in case['consumers']]
    param = qt.TensorTransformationParams(tensor_name='t', producer=None, consumers=cons)
    info = g.TransformationInstructionsGenerator.TensorGraphInfo(5, 0, 2, [c[0] for c in case['consumers']]); self_ = types.SimpleNamespace(_tensor_name_to_graph_info={'t': info})
    cg = [[set(range(len(cons)))]] + [[set(grp) for grp in lvl] for lvl in case['depths']]
    try: out = g.TransformationInstructionsGenerator._produce_consumer_transformations_unavailable_for_vertical_opt(self_, cg, param)
    except Exception as e: return dict(confirmed=True, inputs=case, violated=[f'raised {type(e).__name__}: {e}'])
    bad = []
    for k, inst in enumerate(out):
        ok = False
        for d in range(2, len(cg)):
            for grp in cg[d]:
                ops = [cons[i].subgraph_op_id for i in grp]
                if sorted(inst.consumers) != sorted(ops): continue
                first = next(i for i in grp if cons[i].subgraph_op_id == inst.consumers[0])
                if len(cons[first].transformations) > d - 1 and inst.transformation == cons[first].transformations[d - 1] and inst.parameters is cons[first].parameters and (inst.tensor_id, inst.producer) == (5, 2): ok = True
        if not ok: bad.append(f'instruction {k} ({inst.transformation}, consumers {list(inst.consumers)}) was not built for any group of depth >= 2 as the contract states')
    return dict(confirmed=bool(bad), inputs=case, violated=bad[:4])
def _po_search(label=None):
    pool = [(10, [1, 2], 0), (7, [2, 1, 0], 2), (3, [1], 1), (12, [1, 2, 3], 2)]
    for n in (1, 2, 3, 4):
        cons = pool[:n]; allp = list(range(n)); two = [i for i in allp if len(cons[i][1]) >= 2]; three = [i for i in allp if len(cons[i][1]) >= 3]
        for depths in ([[allp]], [[allp], [two]] if two else None, [[allp], [[i] for i in two]] if two else None, [[allp], [two], [three]] if three else None, [[allp], [[i] for i in two], [[i] for i in three]] if three else None,
                       [[allp], [allp]], [[allp], [two], [two]] if two else None):
            if depths is None: continue
            r = _po_native(dict(consumers=[(o, list(t), k) for o, t, k in cons], depths=depths))
            if r['confirmed']: return r
    return None
PO_CANARIES = [('_produce_consumer_transformations_unavailable_for_vertical_opt: transformation of depth d instead of d - 1', "                param.consumers[op_list[0]].transformations[\n                    transformation_idx - 1\n                ],", "                param.consumers[op_list[0]].transformations[\n                    transformation_idx - 2\n                ],"),
               ('_produce_consumer_transformations_unavailable_for_vertical_opt: positions instead of operator ids', "          op_idx_list.append(param.consumers[index].subgraph_op_id)\n        other_consumer_transformations.append(", "          op_idx_list.append(index)\n        other_consumer_transformations.append("),
               ('_produce_consumer_transformations_unavailable_for_vertical_opt: length guard off by one', "            <= transformation_idx - 1\n", "            < transformation_idx - 1\n")]
def other_obligations(rep, prop):
    obs = pyvc.verify(rep, prop, core.Fn(TIG, PO_Q), vertical.ProduceOther(), select=None, replay=lambda mv, label: _po_search(label) or dict(confirmed=False, inputs=mv), fallback=_po_search)
    src = core.read_source(TIG)
    for name, a, b in (PO_CANARIES if rep.tier == 'thorough' else PO_CANARIES[rep.seed % 3:rep.seed % 3 + 1]):
        if a not in src: rep.canary(name, False, 'mutation site not found (stale canary)'); continue
        try:
            E = pyvc.run_function(core.Fn(TIG, PO_Q, src_override=src.replace(a, b, 1)), vertical.ProduceOther())
            bad = [ob.label for ob, st, dt, det, mv in pyvc.decide_parallel(E, E.spec, timeout=10000, canary=True) if st != 'proved']; rep.canary(name, bool(bad), str(bad[:3]))
        except pyvc.Unsupported as e: rep.canary(name, True, str(e))
    return obs

# ------------------------------------------------------------------------------------------------ composition of the instruction generator (contracts/compose.py)
QP_Q = 'TransformationInstructionsGenerator._quant_params_to_transformation_insts'
def _qp_native(case):
    """the REAL _quant_params_to_transformation_insts on real qtyping objects with the REAL callees, each wrapped by a recorder; the composition contract is evaluated on what the callees
    were given and what they returned.  case: producer = None | ([transformations], param key), consumers = [(op id, [transformations], param key)], info_consumers = [...]"""
    g, qt, PAR = _vo_mods(); T = qt.QuantTransformation; G = g.TransformationInstructionsGenerator
    cons = [qt.OpToTensorParams(subgraph_op_id=o, transformations=[T(t) for t in trs], parameters=PAR[pk]) for (o, trs, pk) in case['consumers']]
    prod = None if case['producer'] is None else qt.OpToTensorParams(subgraph_op_id=2, transformations=[T(t) for t in case['producer'][0]], parameters=PAR[case['producer'][1]])
    param = qt.TensorTransformationParams(tensor_name='t', producer=prod, consumers=cons)
    info = G.TensorGraphInfo(5, 4, 2, list(case['info_consumers'])); obj = object.__new__(G); obj._tensor_name_to_graph_info = {'t': info}
    rec = []
    def spy(name):
        real = getattr(G, name)
        def w(*a):
            snap = [list(x) if isinstance(x, list) else x for x in a]
            try: r = real(obj, *a)
            except Exception as e: rec.append((name, a, snap, ('raised', e))); raise
            rec.append((name, a, snap, ('ret', r, list(r) if isinstance(r, list) else None))); return r
        setattr(obj, name, w)
    for nme in ('_group_consumer_transformations', '_produce_transformation_for_vertical_opt', '_produce_consumer_transformations_unavailable_for_vertical_opt', '_apply_vertical_optimization', '_check_tensor_transformation_instructions_valid'): spy(nme)
    bad = []
    try: out = G._quant_params_to_transformation_insts(obj, param); raised = None
    except Exception as e: out = None; raised = e
    by = {}
    for r in rec: by.setdefault(r[0], []).append(r)
    one = lambda n: by[n][0] if len(by.get(n, [])) == 1 else None
    gr, av, ot, vo, va = (one(n) for n in ('_group_consumer_transformations', '_produce_transformation_for_vertical_opt', '_produce_consumer_transformations_unavailable_for_vertical_opt', '_apply_vertical_optimization', '_check_tensor_transformation_instructions_valid'))
    if raised is not None:
        if not (isinstance(raised, ValueError) and va is not None and va[3][0] == 'raised' and rec[-1] is va): bad.append(f'raised {type(raised).__name__}: {raised} (only the validity check may raise)')
        return dict(confirmed=bool(bad), inputs=case, violated=bad)
    np_ = 0 if prod is None else len(prod.transformations)
    if gr is None or av is None or ot is None or va is None or (vo is None) != (np_ == 0): bad.append('each of grouping / the two builders / validity check must be called exactly once, the vertical optimisation iff there is a producer transformation: ' + str([r[0] for r in rec]))
    else:
        Gv = gr[3][1]; A = av[3][1]; O = ot[3][1]
        if gr[1][0] is not param or av[1][0] is not Gv or av[1][1] is not param or ot[1][0] is not Gv or ot[1][1] is not param: bad.append('a builder was not called with (the grouping of this param, param)')
        if out.tensor_name != 't' or out.subgraph_id != 4: bad.append(f'record carries ({out.tensor_name}, {out.subgraph_id}), contract says (t, 4)')
        if va[1][0] is not out or va[2][0] is not out or rec[-1] is not va: bad.append('the validity check must be the last call, on the returned record')
        L = out.instructions
        if np_ == 0: exp = list(av[3][2]) + list(ot[3][2])
        else:
            P, RL = vo[1]; R = vo[3][1]
            if RL is not A: bad.append('the vertical optimisation did not get the instructions available for vertical optimisation')
            if (P.transformation, P.tensor_id, P.producer, P.parameters) != (prod.transformations[-1], 5, 2, prod.parameters) or P.consumers is not info.consumers: bad.append('the vertical optimisation did not get the rule of the LAST producer transformation (graph-info tensor id / producer / consumer list object, producer parameters)')
            exp = [None] * (np_ - 1) + list(vo[3][2]) + list(ot[3][2])
            for k in range(min(np_ - 1, len(L))):
                o = L[k]
                if (o.transformation, o.tensor_id, o.producer, o.parameters) != (prod.transformations[k], 5, 2, prod.parameters) or o.consumers is not info.consumers: bad.append(f'entry {k} is not the rule of producer transformation {k}')
        if len(L) != len(exp): bad.append(f'{len(L)} instructions, contract says {len(exp)}')
        for k, (o, e) in enumerate(zip(L, exp)):
            if e is not None and o is not e: bad.append(f'entry {k} is not the object the contract names (callee results in order)')
    return dict(confirmed=bool(bad), inputs=case, violated=bad[:4])
def _qp_search(label=None):
    import itertools
    pool = [(10, [1], 0), (7, [1, 2], 2), (3, [0], 1), (12, [1], 1)]
    for producer in (None, ([2], 0), ([3, 2], 0), ([1], 2), ([], 0), ([3, 3, 2], 1)):
        for sel in ([], [0], [0, 1], [0, 3], [2], [1, 3], [0, 1, 3], [2, 2]):
            for extra in ([], [-1]):
                consd = [pool[i] for i in sel]
                r = _qp_native(dict(producer=None if producer is None else (list(producer[0]), producer[1]), consumers=[(o, list(t), k) for o, t, k in consd], info_consumers=extra + [c[0] for c in consd]))
                if r['confirmed']: return r
    return None
QP_CANARIES = [('_quant_params_to_transformation_insts: last producer rule not popped (kept AND handed to the vertical optimisation)', 'transformations.pop(),', 'transformations[-1],'),
               ('_quant_params_to_transformation_insts: vertical optimisation only with at least two producer rules', 'if last_producer_rule_idx >= 0:', 'if last_producer_rule_idx > 0:'),
               ('_quant_params_to_transformation_insts: instructions unavailable for vertical optimisation dropped', '    transformations += other_consumer_transformations\n', '    pass\n'),
               ('_quant_params_to_transformation_insts: validity check runs before the instruction list is set', '    tensor_trans_insts.instructions = transformations\n', '    self._check_tensor_transformation_instructions_valid(tensor_trans_insts)\n    tensor_trans_insts.instructions = transformations\n')]
GEN_FRAMES = [('TransformationInstructionsGenerator._group_consumer_transformations', ['self', 'param']),
              ('TransformationInstructionsGenerator._produce_consumer_transformations_unavailable_for_vertical_opt', ['self', 'consumer_group', 'param'])]
def generator_frame_obligations(rep, prop):
    """the two callees of _quant_params_to_transformation_insts that have no functional contract yet: what the composition proof assumes about them (they write nothing that exists at the call, and
    return a list created in the call) is discharged here — frames by the interprocedural may-mutate analysis of vlib/effects.py (the C14 front end), the returned value by a pattern on the real AST"""
    import ast, time
    from vlib import effects
    from props.C14 import decide_frame
    A = effects.Analysis(core.PKG).run(); out = []
    for qual, params in GEN_FRAMES:
        fn = rep.fn(core.Fn(TIG, qual)); key = (TIG, qual)
        for p_ in params:
            t0 = time.time()
            if key not in A.prog.fns or p_ not in A.prog.fns[key].all_params: st, detail = core.UNKNOWN, 'function or parameter not found (signature changed)'
            else: st, detail, _ = decide_frame(A, key, p_)
            out.append(core.Ob(f'{prop}/{fn.name}/frame.{p_}', fn, 'frame-analysis(effects)', st, time.time() - t0, detail=detail, clause=f'modifies({qual.split(".")[-1]}) contains nothing reachable from argument `{p_}` (assumed by the composition contract of _quant_params_to_transformation_insts)'))
        rets = [n for n in ast.walk(fn.node) if isinstance(n, ast.Return)]; names = {r.value.id for r in rets if isinstance(r.value, ast.Name)}
        binds = {}
        for n in ast.walk(fn.node):
            if isinstance(n, (ast.Assign, ast.AugAssign, ast.AnnAssign)):
                for t in (n.targets if isinstance(n, ast.Assign) else [n.target]):
                    if isinstance(t, ast.Name) and t.id in names: binds.setdefault(t.id, []).append(n)
        ok = bool(rets) and all(isinstance(r.value, ast.List) or (isinstance(r.value, ast.Name) and len(binds.get(r.value.id, [])) == 1 and isinstance(binds[r.value.id][0], ast.Assign) and isinstance(binds[r.value.id][0].value, ast.List)) for r in rets) \
             and not any(isinstance(n, (ast.Yield, ast.YieldFrom)) for n in ast.walk(fn.node)) and isinstance(fn.node.body[-1], ast.Return)
        out.append(core.Ob(f'{prop}/{fn.name}/returns-a-list-created-in-the-call', fn, 'ast-dataflow', core.PROVED if ok else core.REFUTED, 0.0, clause='every return statement returns a list display or a local bound exactly once, to a list display; the body ends with a return (never None, never an argument)'))
    for o in out: rep.add(o)
    return out
def grouping_standin(rep):
    """bounded stand-in (labelled bounded, never counted as proved) for what the builders ASSUME about `_group_consumer_transformations`: the real function on every consumer list of the scope"""
    import itertools
    g, qt, PAR = _vo_mods(); T = qt.QuantTransformation; G = g.TransformationInstructionsGenerator; obj = object.__new__(G)
    trs = [[]] + [[a] for a in (0, 1, 2)] + [[a, b] for a in (0, 1, 2) for b in (1, 2)] + [[1, 2, 1]]; opts = [(t, k) for t in trs for k in (0, 2)]
    total = fails = 0; first = None
    for n in (0, 1, 2, 3):
        for combo in itertools.product(opts, repeat=n):
            cons = [qt.OpToTensorParams(subgraph_op_id=10 + i, transformations=[T(t) for t in trs_], parameters=PAR[k]) for i, (trs_, k) in enumerate(combo)]
            param = qt.TensorTransformationParams(tensor_name='t', producer=None, consumers=cons); total += 1; bad = None
            try: cg = G._group_consumer_transformations(obj, param)
            except Exception as e: bad = f'raised {type(e).__name__}: {e}'; cg = None
            if cg is not None:
                if n == 0: bad = None if cg == [] else 'non-empty grouping for no consumers'
                else:
                    longest = max(len(c.transformations) for c in cons)
                    if len(cg) != longest + 1 or cg[0] != [set(range(n))]: bad = 'depth 0 is not [{all positions}] or the number of depths is not 1 + the longest chain'
                    for d in range(1, len(cg)):
                        want = {i for i in range(n) if len(cons[i].transformations) >= d}; seen_ = set()
                        for grp in cg[d]:
                            if not grp or not grp <= want or grp & seen_: bad = f'depth {d}: group {grp} is empty, names a consumer with fewer than {d} transformations, or overlaps another group'
                            seen_ |= grp
                            if d >= 2 and not any(grp <= up for up in cg[d - 1]): bad = f'depth {d}: group {grp} is not inside one group of depth {d - 1} (not laminar)'
                            if any(cons[i].transformations[d - 1] != cons[min(grp)].transformations[d - 1] or cons[i].parameters != cons[min(grp)].parameters for i in grp): bad = f'depth {d}: group {grp} merges different transformations / parameters'
                        if seen_ != want: bad = f'depth {d}: consumers {want - seen_} with at least {d} transformations are in no group'
            if bad: fails += 1; first = first or (combo, bad)
    rep.add_bounded('_group_consumer_transformations (real code): every depth >= 1 is a partition of the consumers with at least that many transformations into non-empty, laminar groups of equal transformation and parameters (the preconditions the two builders assume)',
                    'all consumer lists with <= 3 consumers x transformation chains of length <= 3 over {NO_QUANTIZE, ADD_QUANTIZE, ADD_DEQUANTIZE} x 2 parameter classes', total, fails, note=str(first) if first else '')
    if first:
        ob = core.Ob('generator/bounded.grouping/groups-are-non-empty-laminar-partitions', None, 'bounded-native', core.REFUTED, 0.0, detail=str(first[1]), clause='grouping contract assumed by the builders'); ob.replay = dict(confirmed=True, inputs=dict(consumers=[list(c) for c in first[0]]), violated=[first[1]]); rep.add(ob)
    return fails
def compose_obligations(rep, prop):
    obs = pyvc.verify(rep, prop, core.Fn(TIG, QP_Q), compose.QuantParamsToInsts(), select=None, replay=lambda mv, label: _qp_search(label) or dict(confirmed=False, inputs=mv), fallback=_qp_search)
    obs += other_obligations(rep, prop)
    obs += generator_frame_obligations(rep, prop)
    grouping_standin(rep)
    src = core.read_source(TIG)
    for name, a, b in (QP_CANARIES if rep.tier == 'thorough' else [QP_CANARIES[(rep.seed + k) % len(QP_CANARIES)] for k in (0, 2)]):
        if a not in src: rep.canary(name, False, 'mutation site not found (stale canary)'); continue
        try:
            E = pyvc.run_function(core.Fn(TIG, QP_Q, src_override=src.replace(a, b, 1)), compose.QuantParamsToInsts())
            bad = [ob.label for ob, st, dt, det, mv in pyvc.decide_parallel(E, E.spec, timeout=10000, canary=True) if st != 'proved']; rep.canary(name, bool(bad), str(bad[:3]))
        except pyvc.Unsupported as e: rep.canary(name, True, str(e))
    return obs

PERF = 'transformation_performer.py'
_as_cases = []
def _search_apply_single(label):
    if not _as_cases: _as_cases.extend(graph_native.enumerate_apply_single(3))
    for case in _as_cases:
        r = graph_native.replay_apply_single(case)
        if r.get('confirmed'): return r
    return None
def performer_obligations(rep, prop, exclude=()):
    """op-id bookkeeping of TransformationPerformer: _update_op_id_map and _apply_single_transformation (call-site obligations = the
    transformation's precondition; PerfInv re-established)"""
    obs = pyvc.verify(rep, prop, core.Fn(PERF, 'TransformationPerformer._update_op_id_map'), performer.UpdateOpIdMap(), select=None)
    obs += pyvc.verify(rep, prop, core.Fn(PERF, 'TransformationPerformer._apply_single_transformation'), performer.ApplySingle(), select=None, exclude=exclude,
                       replay=lambda mv, label: graph_native.replay_apply_single(mv), fallback=_search_apply_single)
    obs += pyvc.verify(rep, prop, core.Fn(PERF, 'TransformationPerformer._create_op_id_map'), performer.CreateOpIdMap(), select=None)
    obs += pyvc.verify(rep, prop, core.Fn(PERF, 'TransformationPerformer._update_instructions'), performer.UpdateInstructions(), select=None)
    obs += orchestration_obligations(rep, prop)
    return obs
def orchestration_obligations(rep, prop):
    """thin glue of the performer, decided as dataflow patterns on the real AST (DESIGN §3 'orchestration contracts'): the two passes of
    _apply_transformations call _apply_single_transformation(inst, index, model) for every instruction of the pass's kind in index order;
    transform_graph resets and creates the op-id maps, snapshots every subgraph's outputs BEFORE transforming, applies every tensor's
    instruction list, and remaps the signatures with that snapshot"""
    import ast; U = ast.unparse; out = []
    fn = rep.fn(core.Fn(PERF, 'TransformationPerformer._apply_transformations')); loops = [n for n in fn.node.body if isinstance(n, ast.For)]
    def pass_ok(l, setname):
        return U(l.iter) == 'enumerate(transformation_inst.instructions)' and U(l.target) == '(index, instruction)' and len(l.body) == 1 and isinstance(l.body[0], ast.If) \
            and U(l.body[0].test) == f'instruction.transformation in self.{setname}' and not l.body[0].orelse and len(l.body[0].body) == 1 \
            and U(l.body[0].body[0]) == 'self._apply_single_transformation(transformation_inst, index, tflite_model)'
    ok = len(loops) == 2 and pass_ok(loops[0], '_op_insertion_transformations') and pass_ok(loops[1], '_op_replacement_transformations')
    out.append(core.Ob(f'{prop}/{fn.name}/orchestration.two-passes-apply-every-instruction-of-their-kind-in-order', fn, 'ast-dataflow', core.PROVED if ok else core.REFUTED, 0.0, clause='pass 1: insertion transformations, pass 2: replacements; same instruction object, index and model'))
    init = rep.fn(core.Fn(PERF, 'TransformationPerformer.__init__')); src_i = U(init.node)
    ok = all(k in src_i for k in ('qtyping.QuantTransformation.ADD_DEQUANTIZE: dequant_insert.insert_dequant', 'qtyping.QuantTransformation.ADD_QUANTIZE: quant_insert.insert_quant', 'qtyping.QuantTransformation.QUANTIZE_TENSOR: quantize_tensor.quantize_tensor')) \
         and 'self._op_insertion_transformations = set([qtyping.QuantTransformation.ADD_DEQUANTIZE, qtyping.QuantTransformation.QUANTIZE_TENSOR, qtyping.QuantTransformation.ADD_QUANTIZE])' in src_i
    out.append(core.Ob(f'{prop}/{init.name}/orchestration.registration-table-and-insertion-set', init, 'ast-dataflow', core.PROVED if ok else core.REFUTED, 0.0, clause='each transformation key dispatches to the function verified under that contract; the insertion set is exactly {ADD_DEQUANTIZE, QUANTIZE_TENSOR, ADD_QUANTIZE}'))
    tg = rep.fn(core.Fn(PERF, 'TransformationPerformer.transform_graph')); body = [U(st) for st in tg.node.body if not (isinstance(st, ast.Expr) and isinstance(st.value, ast.Constant))]
    want = ['self._original_op_id_map = []', 'self._added_op_id_map = []', 'self._create_op_id_map(tflite_model)', 'subgraph_outputs_before = []',
            'for subgraph in tflite_model.subgraphs:\n    subgraph_outputs_before.append(list(subgraph.outputs))',
            'for transformation_inst in transformation_instructions.values():\n    self._apply_transformations(transformation_inst, tflite_model)',
            'self._remap_signature_outputs(tflite_model, subgraph_outputs_before)']
    ok = body == want
    out.append(core.Ob(f'{prop}/{tg.name}/orchestration.reset-create-snapshot-apply-all-remap', tg, 'ast-dataflow', core.PROVED if ok else core.REFUTED, 0.0, detail=str(body), clause='maps reset and created for this model; outputs snapshotted before any transformation; every instruction list applied once; signatures remapped with the snapshot'))
    for o in out: rep.add(o)            # (these three were computed but never added to the report before this line existed)
    return out
def performer_canaries(rep):
    src = core.read_source(PERF)
    for name, qual, spec, a, b in [
        ('_update_op_id_map: original_op_id: -> original_op_id + 1:', 'TransformationPerformer._update_op_id_map', performer.UpdateOpIdMap(), 'np_op_id_map[original_op_id:] += num_ops_added', 'np_op_id_map[original_op_id + 1:] += num_ops_added'),
        ('_apply_single_transformation: producer None test -> truthiness (producer 0 = no producer)', 'TransformationPerformer._apply_single_transformation', performer.ApplySingle(), 'if instruction.producer is None or instruction.producer < 0:', 'if not instruction.producer or instruction.producer < 0:'),
        ('_apply_single_transformation: marker -1 looked up in the op-id map', 'TransformationPerformer._apply_single_transformation', performer.ApplySingle(), 'consumers.append(-1)\n        continue', 'pass'),
    ]:
        if a not in src: rep.canary(name, False, 'mutation site not found (stale canary)'); continue
        try:
            E = pyvc.run_function(core.Fn(PERF, qual, src_override=src.replace(a, b)), spec)
            res = pyvc.decide_parallel(E, spec, timeout=20000, canary=True); bad = [ob.label for ob, st, dt, det, mv in res if st != 'proved']
            rep.canary(name, bool(bad), str(bad[:4]))
        except pyvc.Unsupported as e: rep.canary(name, True, f'mutant leaves the engine subset: {e}')
def e2e_standin(rep, prop, sampled3=0):
    """bounded stand-in through the public API (labelled bounded): generator -> performer composition, serializer, interpreter"""
    from bounded import e2e
    cases = e2e.enumerate_cases(2, sampled3, rep.seed); fails = 0; first = None; tags = {}
    if prop == 'C01': cases = cases + e2e.special_cases()          # one constant shared by two ops in different modes: refused or loadable (structure clauses of C02/C03 are not evaluated on these)
    for c in cases:
        f = [x for x in e2e.run_case(c) if x.startswith(prop) or x.startswith('CHECKER')]
        if f: fails += 1; first = first or (c, f)
        for x in f: tags[x[:40]] = tags.get(x[:40], 0) + 1
    rep.add_bounded('Quantizer.quantize end to end (generator -> performer -> serializer -> LiteRT allocate+invoke), native ' + prop + ' clauses',
                    'all 1-op graphs over {TANH,LOGISTIC,ABS,ADD,MUL,FC} x modes; all 2-op graphs over {TANH,ADD,ABS,FC} x wirings x output sets x modes' + ('; 27 two-op graphs sharing one constant operand x modes' if prop == 'C01' else '') + (f'; {sampled3} seeded random 3-op graphs' if sampled3 else ''),
                    len(cases), fails, note=str(tags) if tags else '')
    if first:
        ob = core.Ob(f'{prop}/bounded.e2e/{first[1][0][:40]}', None, 'bounded-native', core.REFUTED, 0.0, detail=str(first[1]), clause='native ' + prop + ' clause on the bytes returned by quantize()')
        ob.replay = dict(confirmed=True, inputs=dict(spec=first[0][0], modes=first[0][1]), violated=first[1])
        rep.add(ob)
    return fails

def _names_native(case):
    import types, importlib, itertools
    core.stub_package(); pg = importlib.import_module('ai_edge_quantizer.params_generator')
    from ai_edge_litert import schema_py_generated as schema
    sgs = []
    for row in case['subgraph_tensor_names']:
        sg = schema.SubGraphT(); sg.tensors = []
        for nme in row:
            t = schema.TensorT(); t.name = nme.encode(); sg.tensors.append(t)
        sgs.append(sg)
    fake = types.SimpleNamespace(flatbuffer_model=types.SimpleNamespace(subgraphs=sgs))
    allnames = [n for row in case['subgraph_tensor_names'] for n in row]
    try: pg.ParamsGenerator._check_tensor_names_are_unique(fake); returned = True
    except ValueError: returned = False
    bad = returned and len(set(allnames)) != len(allnames)
    return dict(confirmed=bool(bad), inputs=case, observed=dict(returned_normally=returned, names_unique=len(set(allnames)) == len(allnames)))
def _names_search(label):
    import itertools
    for shape in ([2], [1, 1], [2, 1], [1, 2], [2, 2]):
        for names_ in itertools.product('ab', repeat=sum(shape)):
            rows, k = [], 0
            for n in shape: rows.append(list(names_[k:k + n])); k += n
            r = _names_native(dict(subgraph_tensor_names=rows))
            if r['confirmed']: return r
    return None
def names_obligations(rep, prop):
    """the unique-tensor-name precondition that every name-keyed table of the pipeline relies on"""
    obs = pyvc.verify(rep, prop, core.Fn('params_generator.py', 'ParamsGenerator._check_tensor_names_are_unique'), names.NamesUnique(), select=None,
                      replay=lambda mv, label: _names_native(mv), fallback=_names_search)
    src = core.read_source('params_generator.py'); a = '        global_tensor_names.add(tensor_name)'
    if a in src:
        try:
            E = pyvc.run_function(core.Fn('params_generator.py', 'ParamsGenerator._check_tensor_names_are_unique', src_override=src.replace(a, '        pass')), names.NamesUnique())
            bad = [ob.label for ob, st, dt, det, mv in pyvc.decide_parallel(E, E.spec, timeout=20000, canary=True) if st != 'proved']; rep.canary('_check_tensor_names_are_unique: names never recorded', bool(bad), str(bad[:3]))
        except pyvc.Unsupported as e: rep.canary('_check_tensor_names_are_unique: names never recorded', True, str(e))
    else: rep.canary('_check_tensor_names_are_unique: names never recorded', False, 'mutation site not found (stale canary)')
    return obs

def _sig_native(case):
    import types, importlib
    core.stub_package(); tp = importlib.import_module('ai_edge_quantizer.transformation_performer')
    if case.get('signatures') is None: return dict(confirmed=False, inputs=case, note='no signatures')
    NS = types.SimpleNamespace
    sgs = [NS(outputs=list(o)) for o in case['new_outputs']]
    sigs = [NS(subgraphIndex=sd['subgraphIndex'], outputs=None if sd['outputs'] is None else [NS(tensorIndex=t) for t in sd['outputs']]) for sd in case['signatures']]
    model = NS(signatureDefs=sigs, subgraphs=sgs)
    try: tp.TransformationPerformer._remap_signature_outputs(None, model, [list(o) for o in case['old_outputs']])
    except Exception as e: return dict(confirmed=False, inputs=case, observed=f'raised {type(e).__name__}: {e}')
    bad = []
    for s_, (sd, sig) in enumerate(zip(case['signatures'], sigs)):
        if sd['outputs'] is None: continue
        old, new = case['old_outputs'][sd['subgraphIndex']], case['new_outputs'][sd['subgraphIndex']]
        for k, t0 in enumerate(sd['outputs']):
            want = new[old.index(t0)] if t0 in old else t0
            if sig.outputs[k].tensorIndex != want: bad.append(f'signature {s_} output {k}: tensorIndex {sig.outputs[k].tensorIndex}, expected {want} (old graph outputs {old} -> new {new}, entry named tensor {t0})')
    return dict(confirmed=bool(bad), inputs=case, violated=bad)
def _sig_search(label):
    import itertools
    for old in ([5], [5, 6], [6, 5], [5, 5]):
        for new in itertools.product((5, 6, 8, 9), repeat=len(old)):
            for outs in itertools.permutations(old + [7], 2):
                r = _sig_native(dict(signatures=[dict(subgraphIndex=0, outputs=list(outs))], old_outputs=[old], new_outputs=[list(new)]))
                if r['confirmed']: return r
    # several subgraphs: signatures listed in another order than the subgraphs, two signatures on one subgraph, more signatures than subgraphs
    for sig_sgs in ([1, 0], [0, 0], [1, 1, 0], [0, 1]):
        old = [[5], [3, 4]]; new = [[8], [3, 9]]
        r = _sig_native(dict(signatures=[dict(subgraphIndex=g, outputs=list(reversed(old[g]))) for g in sig_sgs], old_outputs=old, new_outputs=new))
        if r['confirmed']: return r
    return None
def signature_obligations(rep, prop):
    obs = pyvc.verify(rep, prop, core.Fn(PERF, 'TransformationPerformer._remap_signature_outputs'), signature.RemapSignatureOutputs(), select=None,
                      replay=lambda mv, label: _sig_native(mv), fallback=_sig_search)
    src = core.read_source(PERF); a = "            tensor_map.tensorIndex = new_outputs[output_index]\n            break"
    name = '_remap_signature_outputs: keeps scanning after the first match (break dropped)'
    if a in src:
        try:
            E = pyvc.run_function(core.Fn(PERF, 'TransformationPerformer._remap_signature_outputs', src_override=src.replace(a, "            tensor_map.tensorIndex = new_outputs[output_index]")), signature.RemapSignatureOutputs())
            bad = [ob.label for ob, st, dt, det, mv in pyvc.decide_parallel(E, E.spec, timeout=20000, canary=True) if st != 'proved']; rep.canary(name, bool(bad), str(bad[:3]))
        except pyvc.Unsupported as e: rep.canary(name, True, str(e))
    else: rep.canary(name, False, 'mutation site not found (stale canary)')
    return obs

def small_carriers(rep, prop):
    sel = SEL[prop]; obs = []
    obs += pyvc.verify(rep, prop, core.Fn(TU, 'add_op_code'), graph.AddOpCode(), select=sel)
    obs += pyvc.verify(rep, prop, core.Fn(TU, 'add_new_activation_tensor'), graph.AddActivationTensor(), select=sel)
    obs += pyvc.verify(rep, prop, core.Fn(TU, 'get_unique_tensor_name'), graph.UniqueName(), select=None)
    return obs

def dtype_tables(rep, prop):
    obs = pyvc.verify(rep, prop, core.Fn(QT, 'quant_params_to_tflite_type'), graph.TfliteType(), select=None)
    obs += pyvc.verify(rep, prop, core.Fn(QT, 'nonlinear_quant_params_to_tflite_type'), graph.NonlinearTfliteType(), select=None)
    return obs

def bounded_insert(rep, max_ops=2):
    """bounded stand-in (labelled, never counted as proved): every admissible instruction on every graph with <= max_ops single-output ops"""
    fails = 0; total = 0; first = None
    for kind in ('dequant', 'quant'):
        for case in graph_native.enumerate_insert_cases(max_ops, 2):
            r = graph_native.replay_insert(kind, case); total += 1
            if r.get('confirmed'): fails += 1; first = first or r
    rep.add_bounded('insert_dequant / insert_quant (real code, native C01/C02 clauses)', f'all graphs with <= {max_ops} single-output ops over 2 graph inputs, <= 2 operands, every tensor x every admissible consumer subset incl. the graph-output marker', total, fails)
    return fails, first

CANARIES = [
    ('insert_dequant: first consumer = min -> max over the listed consumers', DI, 'insert_dequant', 'dequant', 'first_consumer_id = min(first_consumer_id, consumer_id)', 'first_consumer_id = max(first_consumer_id, consumer_id)'),
    ('insert_dequant: op placed at the producer position (producer + 1 -> producer)', DI, 'insert_dequant', 'dequant', 'max(transformation_input.producer + 1, first_consumer_id)', 'min(transformation_input.producer, first_consumer_id)'),
    ('insert_dequant: rewire test dropped (every operand of a listed consumer rewired)', DI, 'insert_dequant', 'dequant', 'if op.inputs[input_idx] == transformation_input.tensor_id:', 'if True:'),
    ('insert_quant: graph-output update dropped', QI, 'insert_quant', 'quant', 'transformation_input.subgraph.outputs[output_idx] = new_tensor_id', 'pass'),
    ('insert_quant: inserted op reads the NEW tensor instead of T', QI, 'insert_quant', 'quant', 'quant_op.inputs = [transformation_input.tensor_id]', 'quant_op.inputs = [new_tensor_id]'),
]
def canaries(rep, exclude=()):
    # quick tier: two of the insert_* canaries (rotating with VERIF_SEED); thorough tier: all of them
    sel = CANARIES if rep.tier == 'thorough' else [CANARIES[(rep.seed + k) % len(CANARIES)] for k in (0, 2)]
    for name, rel, qual, kind, a, b in sel:
        src = core.read_source(rel)
        if a not in src: rep.canary(name, False, 'mutation site not found (stale canary)'); continue
        fn = core.Fn(rel, qual, src_override=src.replace(a, b))
        try:
            E = pyvc.run_function(fn, graph.Insert(kind))
            E.obs = [ob for ob in E.obs if ob.label.startswith(('return:', 'loop'))]   # postconditions and loop invariants are where a body mutation must show
            res = pyvc.decide_parallel(E, E.spec, exclude=exclude, timeout=20000, canary=True)
            bad = [ob.label for ob, st, dt, det, mv in res if st != 'proved']
            rep.canary(name, bool(bad), str(bad[:4]))
        except pyvc.Unsupported as e:
            rep.canary(name, True, f'mutant leaves the engine subset: {e}')
