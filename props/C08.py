"""C08 — shipped default recipes quantize every supported-op graph without rejection (totality = no reachable `raise`).

Pre8 (the precondition every obligation is stated under):
  (recipe)  the recipe is one of the files shipped under recipes/ or the value of a recipe.py helper, handed to Quantizer unchanged;
  (model)   float model in converter normal form: no tensor carries quantization parameters, unique tensor names, one buffer per tensor,
            every tensor written by at most one operator (graph inputs by none), operators have the operand lists of their TFLite
            definition, the model is given as a path / bytes / bytearray; one subgraph per signature (control-flow bodies excluded);
  (calib)   when the recipe needs calibration, calibrate() ran with the same recipe on >= 1 sample for every signature and its result
            is what quantize() receives.

1. RAISE-SITE CENSUS (contracts/c08_census.py): every explicit `raise` and every `list.remove` on the call trees of Quantizer.__init__ /
   load_quantization_recipe / calibrate / quantize and of the recipe.py helpers, call graph and registry dispatch resolved from the real
   source by vlib/effects.py, re-read on every run.  ONE obligation per site: `C08/<module>.<qualname>/raise@<ordinal>:<Type>` = the site is
   unreachable under Pre8 (or its exception cannot escape to the API).  Arguments (backend names):
     callgraph-gates+exhaustive-native   every escaping path to the site passes a gate function whose whole input space under Pre8 is finite
                                         (shipped recipe x op key) and was evaluated natively on the real function without an exception
     ast-dataflow+exhaustive-native      call-site arguments are syntactically the values returned by the resolution; the real function
                                         evaluated over the resolution table
     exhaustive-native(guard)            the real guard expression evaluated over every resolved (recipe, op key, config)
     exhaustive-native(op-signature)     the materialize function chosen by the real registry run on a real one-operator graph for every
                                         (recipe, registered op key, operand pattern); the guard depends only on that finite space
     ast-guard / ast-dataflow            syntactic facts on the real AST
     z3+ast-dataflow                     dtype table total for <= 64 bits (contracts/graph.TfliteType re-run) + census of num_bits sources
     precondition                        the guard literally tests a clause of Pre8 (guard text re-matched on every run)
   A site with no registered argument (a NEW raise site) is an obligation with status unknown -> the check fails; if the bounded stand-in
   reaches it natively it is refuted with the failing model.
2. Sites whose guards depend on data shapes inside the numeric kernel (listed in UNREACHED) are NOT obligations: they are reported as a
   bounded stand-in `unreached-in-bounded-search`.
3. BOUNDED STAND-IN (replay/c08_models.py): shipped recipes x generated models through the public API; any exception is a failure and is
   attributed to its census site through the traceback; a failure refutes that site's obligation with the failing model as replay.
4. Known findings: class exclusion as in props/C15.py (witness replayed every run; the site obligation is re-decided under the exclusion:
   every natively failing input at the site must belong to the class, and the function-level argument outside the class must hold).
   Entry format (known_findings.json, property C08):
     {"id": "...", "property": "C08", "status": "known", "what": "...", "class": "<words>",
      "class_predicate": "divergent-consumer-parameters" | "repeated-operand-requantized",          (machine-checkable form: replay/c08_models.classes_of)
      "witness": {"recipe": "file:default_a8w8_recipe.json", "spec": {"ops": [["ADD", 0, 0], ["CONCATENATION", 0, 1]], "outs": [2]}, "n_samples": 1, "seed": 0},
      "obligations": ["C08/params_generator.ParamsGenerator._check_buffer_sharing/raise@1:RuntimeError"]}
5. The LiteRT step (allocate + invoke of the returned model) is exercised as a by-product and reported as NOTE (clause of C01, not of C08)."""
import ast, json, os, sys, time, copy
from vlib import core, effects
from contracts import c08_census as CC

LEVEL = 'proof'
AMA, NMM, MMU, UQT, PG, QT, RM, TIG, QTEN, ES, TFU, CAL, QZ, FC_ = ('algorithm_manager_api.py', 'algorithms/uniform_quantize/naive_min_max_quantize.py', 'algorithms/utils/min_max_quantize_utils.py',
    'algorithms/uniform_quantize/uniform_quantize_tensor.py', 'params_generator.py', 'qtyping.py', 'recipe_manager.py', 'transformation_instruction_generator.py',
    'transformations/quantize_tensor.py', 'transformations/emulated_subchannel.py', 'utils/tfl_flatbuffer_utils.py', 'calibrator.py', 'quantizer.py', 'algorithms/nonlinear_quantize/float_casting.py')
GATE_LOAD = (RM, 'RecipeManager.load_quantization_recipe'); GATE_RESOLVE = (RM, 'RecipeManager.get_quantization_configs')
DISPATCH_FNS = [(AMA, 'AlgorithmManagerApi.get_quantization_func'), (AMA, 'AlgorithmManagerApi.get_init_qsv_func')]

PRE = dict(
    float_model='Pre8(model): float model, no tensor carries quantization parameters',
    unique='Pre8(model): tensor names are unique',
    ssa='Pre8(model): every tensor is written by at most one operator and graph inputs by none',
    calibrated='Pre8(calib): calibrate() ran with the same recipe (>= 1 sample, every signature) and quantize() receives its result; '
               'the names looked up by materialisation are among the calibrated names (C10: calibration and quantization resolve the same (op key, scope) and walk the same operators)',
    api='Pre8(model): the model is handed over as a path, bytes or bytearray',
    arity='Pre8(model): operators have the operand lists (count, order, dtypes) of their TFLite definition')

# sites that are reported as a bounded stand-in, never as obligations (guards on array shapes / dtypes inside the numeric kernel, or on the
# composition of all consumers of a tensor): function -> why
UNREACHED = {
    (UQT, '_is_valid_quantization_params'): 'scale / zero-point shape and rank versus tensor rank: data-shape dependent (numeric kernel, C04/C05 territory)',
    (UQT, 'fix_quantization_params_rank'): 'scalar tensor with multi-element scale: data-shape dependent',
    (UQT, 'uniform_quantize'): 'zero-point dtype is a signed integer: numpy dtype flow through every constructor of UniformQuantParams',
    (TIG, 'TransformationInstructionsGenerator._check_tensor_transformation_instructions_valid@1'): 'a tensor both quantized and unquantized after optimisation: depends on the composition of all consumers of a tensor '
        '(shadowed by _check_buffer_sharing for consumer/consumer conflicts; producer/consumer conflicts are removed by the vertical optimisation)',
}

def oid_of(site): return site['id']
def guards(site): return CC.guard_text(site)
def has_guard(site, text, pol=None): return any(t == text and (pol is None or p == pol) for t, p in guards(site))

# ================================================================================================ AST helpers
def fn_node(C, key): return C.A.prog.fns[key].node
def assigns_to(node, name):
    """all (statement, value) that bind plain name `name` inside function `node` (tuple targets included)"""
    out = []
    for n in ast.walk(node):
        if isinstance(n, ast.Assign):
            for t in n.targets:
                for e in ([t] if not isinstance(t, (ast.Tuple, ast.List)) else t.elts):
                    if isinstance(e, ast.Name) and e.id == name: out.append((n, n.value))
        elif isinstance(n, (ast.For, ast.AsyncFor)):
            for e in ast.walk(n.target):
                if isinstance(e, ast.Name) and e.id == name: out.append((n, None))
        elif isinstance(n, (ast.AugAssign, ast.AnnAssign)) and isinstance(n.target, ast.Name) and n.target.id == name: out.append((n, n.value))
        elif isinstance(n, ast.NamedExpr) and n.target.id == name: out.append((n, n.value))
    return out
def from_resolution(C, caller, alg_name, key_name):
    """`alg_name` is bound in `caller` only by  alg_name, _ = <x>.get_quantization_configs(key_name, ...)"""
    node = fn_node(C, caller); a = assigns_to(node, alg_name)
    if len(a) != 1: return False, f'{alg_name} bound {len(a)} times in {caller[1]}'
    st, val = a[0]
    ok = (isinstance(val, ast.Call) and isinstance(val.func, ast.Attribute) and val.func.attr == 'get_quantization_configs' and val.args and isinstance(val.args[0], ast.Name) and val.args[0].id == key_name
          and isinstance(st, ast.Assign) and isinstance(st.targets[0], ast.Tuple) and isinstance(st.targets[0].elts[0], ast.Name) and st.targets[0].elts[0].id == alg_name)
    return ok, ' '.join(ast.unparse(st).split())[:120]
def resolution_config_name(C, caller, cfg_name, key_name):
    node = fn_node(C, caller); a = assigns_to(node, cfg_name)
    if len(a) != 1: return False
    st, val = a[0]
    return (isinstance(val, ast.Call) and isinstance(val.func, ast.Attribute) and val.func.attr == 'get_quantization_configs' and isinstance(st, ast.Assign) and isinstance(st.targets[0], ast.Tuple)
            and len(st.targets[0].elts) == 2 and isinstance(st.targets[0].elts[1], ast.Name) and st.targets[0].elts[1].id == cfg_name)

# ================================================================================================ the arguments
class Ctx:
    """everything a rule may consult: census C, native facts F, stand-in failures by site"""
    def __init__(self, C, F, reached):
        self.C, self.F, self.reached = C, F, reached
        self.shipped = [r for r in F.get('recipes', {})]
        self.cache = {}
    def memo(self, k, f):
        if k not in self.cache: self.cache[k] = f()
        return self.cache[k]

def gate_totality(X):
    """E1 + E2: both gates evaluated natively over their whole input space under Pre8"""
    def go():
        F = X.F; bad = []
        for rid, r in F['recipes'].items():
            if not r.get('ok'): bad.append(('load', rid, r))
            elif r.get('same_as_direct_load') is False: bad.append(('load-differs', rid, r))
            for rule in r.get('rules', []):
                if rule['regex'] != '.*': bad.append(('regex', rid, rule))          # scope independence of the resolution is argued from the literal regex '.*'
        if not F.get('default_config_ok'): bad.append(('default-config', None, None))
        n = 0
        for rid, tab in F['resolution'].items():
            for k, row in tab.items():
                if k not in F['possible_op_keys']: continue          # op keys come from TFL_OP_CODE_TO_NAME or from the virtual INPUT / OUTPUT operators
                for scope, v in row.items():
                    n += 1
                    if 'error' in v: bad.append(('resolve', rid, dict(op_key=k, scope=scope, **v['error'])))
                    elif v != row['']: bad.append(('scope-dependent', rid, dict(op_key=k, scope=scope)))
        return bad, n
    return X.memo('gates', go)

def rule_gates(X, site):
    C = X.C; exc = site['exc']
    esc = C.reach_escaping(exc, cut={GATE_LOAD, GATE_RESOLVE})
    if site['fn'] in esc:
        return core.UNKNOWN, 'callgraph-gates+exhaustive-native', f'an escaping path to {site["fn"][1]} avoids the gates load_quantization_recipe / get_quantization_configs'
    bad, n = gate_totality(X)
    if bad:
        kind, rid, info = bad[0]
        hit = [b for b in bad if isinstance(b[2], dict) and b[2].get('site') and tuple(b[2]['site'][:1]) == (site['fn'][0],) and site['line'] <= b[2]['site'][2] <= site['end']]
        if hit:
            kind, rid, info = hit[0]
            return core.REFUTED, 'exhaustive-native', dict(confirmed=True, inputs=dict(level='function', call='RecipeManager.get_quantization_configs' if kind == 'resolve' else 'Quantizer.load_quantization_recipe', recipe=rid, **{k: v for k, v in info.items() if k in ('op_key', 'scope')}),
                                                         observed=dict(exc=info.get('exc'), msg=info.get('msg'), site=info.get('site')))
        return core.UNKNOWN, 'callgraph-gates+exhaustive-native', f'a gate is not total on its finite input space: {kind} {rid} {str(info)[:200]}'
    prot = site['fn'] not in C.reach_escaping(exc, cut={GATE_LOAD})
    return core.PROVED, 'callgraph-gates+exhaustive-native', (f'every path on which a {exc} raised here could reach the API passes RecipeManager.load_quantization_recipe or .get_quantization_configs; both evaluated natively: '
            f'{len(X.F["recipes"])} shipped recipes load unchanged, {n} resolutions (recipe x op key of TFL_OP_CODE_TO_NAME + INPUT/OUTPUT x 3 scopes; every shipped regex is the literal ".*") return' + ('; at resolution time the call is additionally enclosed in try/except ValueError' if prot else ''))

def dispatch_total(X):
    def go():
        bad = []; n = 0
        for rid, d in X.F['dispatch'].items():
            for k, e in d.items():
                if k not in X.F['possible_op_keys']: continue
                for name, v in e.items():
                    n += 1
                    if isinstance(v, dict): bad.append((rid, k, name, v['error']))
        return bad, n
    return X.memo('dispatch', go)

def rule_dispatch(X, site):
    C = X.C; notes = []
    for g in DISPATCH_FNS:
        for caller, call, conds in C.call_sites(g):
            if caller[1].startswith('AlgorithmManagerApi.'): continue
            if call is None or len(call.args) < 2 or not all(isinstance(a, ast.Name) for a in call.args[:2]):
                return core.UNKNOWN, 'ast-dataflow+exhaustive-native', f'call of {g[1]} in {caller[1]} does not pass plain names'
            ok, txt = from_resolution(C, caller, call.args[0].id, call.args[1].id)
            if not ok: return core.UNKNOWN, 'ast-dataflow+exhaustive-native', f'{caller[1]}: algorithm / op key passed to {g[1]} are not the values of one resolution call ({txt})'
            if not any('NO_QUANTIZE' in t for t, p in [(' '.join(ast.unparse(c).split()), p) for c, p in conds]) and not _after_noquant_skip(C, caller, call):
                return core.UNKNOWN, 'ast-dataflow+exhaustive-native', f'{caller[1]}: call of {g[1]} is not guarded by the NO_QUANTIZE test'
            notes.append(f'{caller[1]}:{call.lineno}')
    if site['fn'][1] == 'AlgorithmManagerApi.get_supported_ops':
        cs = [c for c in C.callers_of(site['fn'])]
        if any(k not in DISPATCH_FNS for k, _ in cs): return core.UNKNOWN, 'ast-dataflow+exhaustive-native', f'get_supported_ops called from {cs}'
    bad, n = dispatch_total(X)
    if bad:
        rid, k, name, err = bad[0]
        return core.REFUTED, 'exhaustive-native', dict(confirmed=True, inputs=dict(level='function', call=f'algorithm_manager {name} lookup', recipe=rid, op_key=k), observed=err)
    return core.PROVED, 'ast-dataflow+exhaustive-native', f'the (algorithm, op key) handed to the registry at {sorted(set(notes))} are the values of the resolution of the same operator, NO_QUANTIZE skipped; all {n} look-ups (recipe x quantized op key x materialize/calibrate/init) return a function'

def _after_noquant_skip(C, caller, call):
    """the call follows, in the same block, an `if algorithm_name == ...NO_QUANTIZE: continue`"""
    node = fn_node(C, caller)
    for n in ast.walk(node):
        if isinstance(n, ast.If) and 'NO_QUANTIZE' in ast.unparse(n.test) and n.lineno < call.lineno and any(isinstance(b, ast.Continue) for b in n.body): return True
    return False

def rule_transformations(X, site):
    C = X.C; F = X.F
    cs = C.call_sites(site['fn'])
    for caller, call, conds in cs:
        if call is None or not call.args or ast.unparse(call.args[0]) != 'op_info.op_quant_config':
            return core.UNKNOWN, 'ast-dataflow+exhaustive-native', f'{caller[1]} does not pass op_info.op_quant_config'
    ok, why = opinfo_from_resolution(C)
    if not ok: return core.UNKNOWN, 'ast-dataflow+exhaustive-native', why
    bad = []; n = 0
    live = {row['']['cfg'] for tab in F['resolution'].values() for row in tab.values() if 'alg' in row[''] and row['']['alg'] != 'no_quantize'}
    for cid in sorted(live):
        for key, v in F['transformations'][cid].items():
            n += 1
            if isinstance(v, dict): bad.append((cid, key, v['error']))
    if bad:
        cid, key, err = bad[0]
        return core.REFUTED, 'exhaustive-native', dict(confirmed=True, inputs=dict(level='function', call='get_tensor_transformations', op_config=json.loads(cid), is_inbounding=key[0] == '1', is_constant=key[1] == '1'), observed=err)
    c3 = F.get('c03_admitted'); cite = ''
    if isinstance(c3, dict) and 'error' not in c3:
        if any(v != core.PROVED for v in c3.values()): return core.UNKNOWN, 'ast-dataflow+exhaustive-native', f'props/C03 family (i) re-run: {c3}'
        cite = f'; props/C03.py family (i) "admitted config never raises" re-run: {len(c3)} sources proved'
    return core.PROVED, 'ast-dataflow+exhaustive-native', f'op_info.op_quant_config is the config returned by the resolution ({why}); get_tensor_transformations evaluated on all {len(live)} configs that a shipped recipe resolves to with a quantizing algorithm x inbound x constant ({n} calls): no exception' + cite

def opinfo_from_resolution(C):
    """every qtyping.OpInfo(...) built on the API call trees takes its config from a resolution call of the same function"""
    seen = []
    for k in sorted(C.reach):
        fi = C.A.prog.fns.get(k)
        if fi is None or fi.kind == 'module': continue
        for n in ast.walk(fi.node):
            if isinstance(n, ast.Call) and ast.unparse(n.func).endswith('OpInfo'):
                if len(n.args) < 4 or not isinstance(n.args[3], ast.Name) or not isinstance(n.args[1], ast.Name): return False, f'OpInfo(...) in {k[1]} with a non-name config'
                if not resolution_config_name(C, k, n.args[3].id, n.args[1].id): return False, f'OpInfo config in {k[1]} is not the second value of a resolution call'
                seen.append(f'{k[1]}:{n.lineno}')
    return bool(seen), 'OpInfo built at ' + ', '.join(seen)

def rule_guard_eval(which):
    """the enclosing test (own = of the site; callsite = of every call of the site's function) is a function of the resolved config only and is never satisfied"""
    def rule(X, site):
        res = X.F.get('guards', {}).get(site['id'])
        if res is None: return core.UNKNOWN, 'exhaustive-native(guard)', 'guard expression not evaluated'
        if res['errors']: return core.UNKNOWN, 'exhaustive-native(guard)', f'guard evaluation failed: {res["errors"][:2]}'
        want = X.guard_req[site['id']][2]
        if res['n'] == 0: return core.UNKNOWN, 'exhaustive-native(guard)', 'no resolved config'
        if want in res['values']: return core.UNKNOWN, 'exhaustive-native(guard)', f'guard `{X.guard_req[site["id"]][1]}` takes the value {want} for some resolved config'
        return core.PROVED, 'exhaustive-native(guard)', f'{which} guard `{X.guard_req[site["id"]][1]}` (free names: op_info.op_quant_config / tensor_quant_config / op name) evaluated on the real objects for all {res["n"]} (recipe, op key, tensor config): always {not want}'
    return rule

def emulated_never_emitted(X):
    def go():
        C = X.C; producers = []; others = []
        for k, fi in sorted(C.A.prog.fns.items()):
            if fi.kind == 'module' and False: continue
            body = fi.node
            parents = {}
            for p in ast.walk(body):
                for ch in ast.iter_child_nodes(p): parents[ch] = p
            for n in ast.walk(body):
                if isinstance(n, (ast.FunctionDef, ast.AsyncFunctionDef)) and n is not body: continue
                if isinstance(n, ast.Attribute) and n.attr == 'EMULATED_SUBCHANNEL':
                    if owner_fn(parents, n, body) is not body: continue
                    p = parents.get(n)
                    if isinstance(p, ast.Compare): others.append((k, 'compare'))
                    elif isinstance(p, ast.Dict) and n in p.keys: others.append((k, 'dict-key'))
                    elif isinstance(p, ast.List) and isinstance(parents.get(p), ast.Call) and ast.unparse(parents[p].func) == 'set': others.append((k, 'set-literal'))
                    else: producers.append(k)
        prod = sorted(set(producers))
        if prod != [(MMU, 'get_tensor_transformations')]: return False, f'EMULATED_SUBCHANNEL is produced as a value in {prod}'
        outs = set()
        for cid, row in X.F['transformations'].items():
            for v in row.values():
                if isinstance(v, list): outs |= set(v)
        live = {row['']['cfg'] for tab in X.F['resolution'].values() for row in tab.values() if 'alg' in row[''] and row['']['alg'] != 'no_quantize'}
        for cid in live:
            for v in X.F['transformations'][cid].values():
                if isinstance(v, list) and 'EMULATED_SUBCHANNEL' in v: return False, f'a shipped recipe resolves to a config that emits EMULATED_SUBCHANNEL: {cid}'
        seen = {e[2] for e in map(tuple, X.F.get('entries', []))}
        if any('EMULATED_SUBCHANNEL' in w for w in seen): return False, 'materialisation produced EMULATED_SUBCHANNEL'
        return True, (f'the enum value EMULATED_SUBCHANNEL occurs as a produced value only in get_tensor_transformations (elsewhere: {sorted(set(o[1] for o in others))}); '
                      f'its output over all {len(live)} configs a shipped recipe resolves to never contains it')
    return X.memo('emulated', go)
def owner_fn(parents, n, top):
    while n in parents:
        n = parents[n]
        if isinstance(n, (ast.FunctionDef, ast.AsyncFunctionDef)): return n
    return top
def rule_emulated(X, site):
    ok, why = emulated_never_emitted(X)
    if site['fn'] == (ES, 'emulated_subchannel'):
        cs = X.C.callers_of(site['fn'])
        if [k for k, _ in cs] != [('transformation_performer.py', 'TransformationPerformer._apply_single_transformation')]: return core.UNKNOWN, 'ast-dataflow+exhaustive-native', f'emulated_subchannel called from {cs}'
        why += '; emulated_subchannel is reachable only through the performer dispatch on instruction.transformation'
    else:
        if not has_guard(site, 'is_operator_emulated and len(instructions.instructions) > 1', True): return core.UNKNOWN, 'ast-dataflow+exhaustive-native', 'guard changed'
    return (core.PROVED if ok else core.UNKNOWN), 'ast-dataflow+exhaustive-native', why

def mini_rule(dep, pre=None):
    """exhaustive over (recipe x registered op key x operand pattern) on real one-operator graphs"""
    def rule(X, site):
        C = X.C; F = X.F; backend = 'exhaustive-native(op-signature)' + ('+precondition' if pre else '')
        fnmap = {f'{CC.modname(k[0])}:{k[1]}': k for k in C.A.prog.fns}
        rel_ops = set(); runs = []
        for rid, d in F['dispatch'].items():
            for k, e in d.items():
                m = e.get('materialize')
                if isinstance(m, dict): continue
                key = fnmap.get(m)
                if key is None: return core.UNKNOWN, backend, f'materialize function {m} not found in the program model'
                if site['fn'] in C.A.reach(key): rel_ops.add((rid, k))
        if not rel_ops: return core.UNKNOWN, backend, 'no live materialize function reaches the site (vacuous)'
        guard_line = site['conds'][-1][0].lineno if site['conds'] else None
        evaluated = 0; n = 0
        for m in F['mini']:
            if (m['rid'], m['op']) not in rel_ops: continue
            if m.get('skipped'): continue
            n += 1
            if not m.get('ok'):
                st = m.get('site')
                if st and st[0] == site['fn'][0] and site['line'] <= st[2] <= site['end']:
                    return core.REFUTED, 'exhaustive-native(op-signature)', dict(confirmed=True, inputs=dict(level='function', call='materialize function on a one-operator graph', recipe=m['rid'], op_key=m['op'], variant=m['variant']), observed={k: m.get(k) for k in ('exc', 'msg', 'site')})
                return core.UNKNOWN, backend, f'one-operator materialisation failed elsewhere: {m["rid"]} {m["op"]} {m["variant"]}: {m.get("exc")} {m.get("msg")}'
            L = {tuple(x) for x in m['lines']}
            if (site['fn'][0], site['line']) in L: return core.UNKNOWN, backend, f'raise line executed without exception?! {m["rid"]} {m["op"]}'
            if guard_line is not None and (site['fn'][0], guard_line) in L: evaluated += 1
        if evaluated == 0: return core.UNKNOWN, backend, 'the guard was never evaluated by the one-operator runs (vacuous)'
        ops = sorted({k for _, k in rel_ops})
        return core.PROVED, backend, (f'{dep}; the materialize function selected by the real registry was run on a real one-operator graph for every (shipped recipe, op key in {ops}, operand pattern): {n} runs, '
                                      f'guard evaluated in {evaluated}, never true' + (f'; {pre}' if pre else ''))
    return rule

def rule_precondition(clause, expect, callsite=False):
    """expect: list of (guard text, polarity) that must be (a sub-chain of) the enclosing tests of the site / of every call site"""
    def rule(X, site):
        if callsite:
            cs = X.C.call_sites(site['fn'])
            if not cs: return core.UNKNOWN, 'precondition', 'no call site found'
            for caller, call, conds in cs:
                g = [(' '.join(ast.unparse(t).split()), p) for t, p in conds]
                if not all(any(t.startswith(e) and p == pol for t, p in g) for e, pol in expect): return core.UNKNOWN, 'precondition', f'call in {caller[1]} is not guarded by {expect}: {g}'
            where = 'every call of the function is guarded by'
        else:
            g = guards(site)
            if not all((e, pol) in g for e, pol in expect): return core.UNKNOWN, 'precondition', f'guard changed: {g}'
            where = 'the site is guarded by'
        return core.PROVED, 'precondition', f'{where} {expect}, which literally tests the negation of: {clause}'
    return rule

def rule_remove_guarded(X, site):
    call = site['node']; recv = ast.unparse(call.func.value); arg = ast.unparse(call.args[0])
    if not site['conds']: return core.UNKNOWN, 'ast-guard', 'remove is not inside a test'
    test, pol = site['conds'][-1]
    ok = pol and isinstance(test, ast.Compare) and len(test.ops) == 1 and isinstance(test.ops[0], ast.In) and ast.unparse(test.left) == arg and ast.unparse(test.comparators[0]) == recv
    if ok:
        # the remove must be the first statement of the guarded block (nothing can change the list between the test and the remove)
        fnode = fn_node(X.C, site['fn'])
        for n in ast.walk(fnode):
            if isinstance(n, ast.If) and n.test is test:
                first = n.body[0]
                ok = isinstance(first, ast.Expr) and first.value is call
    return (core.PROVED if ok else core.UNKNOWN), 'ast-guard', f'`{site["text"]}` is the first statement under `if {ast.unparse(test)}`' if ok else f'not directly guarded: if {ast.unparse(test)} ({pol})'

def rule_round_and_clip(X, site):
    C = X.C
    if not has_guard(site, 'qtype.signed', False) or not has_guard(site, 'narrow', True): return core.UNKNOWN, 'ast-dataflow', f'guard changed: {guards(site)}'
    notes = []
    for caller, call, conds in C.call_sites(site['fn']):
        if call is None or len(call.args) < 2 or not isinstance(call.args[1], ast.Name): return core.UNKNOWN, 'ast-dataflow', f'{caller[1]}: qtype argument is not a plain name'
        a = assigns_to(fn_node(C, caller), call.args[1].id)
        for st, val in a:
            ok = isinstance(val, ast.Call) and ast.unparse(val.func).endswith('IntType') and any(kw.arg == 'signed' and isinstance(kw.value, ast.Constant) and kw.value.value is True for kw in val.keywords)
            if not ok: return core.UNKNOWN, 'ast-dataflow', f'{caller[1]}: qtype bound by `{ast.unparse(st)[:80]}`'
        if not a: return core.UNKNOWN, 'ast-dataflow', f'{caller[1]}: qtype is not bound locally'
        notes.append(caller[1])
    if not notes: return core.UNKNOWN, 'ast-dataflow', 'no call site'
    return core.PROVED, 'ast-dataflow', f'reached only when qtype.signed is false; every caller ({sorted(set(notes))}) binds qtype exactly once to IntType(..., signed=True)'

def live_reach(X):
    """functions reachable when registry dispatch is restricted to the targets the REAL registry returns for the resolution table of the shipped recipes"""
    def go():
        C = X.C; F = X.F; A = C.A
        fnmap = {f'{CC.modname(k[0])}:{k[1]}': k for k in A.prog.fns}
        live = set()
        for d in F['dispatch'].values():
            for e in d.values():
                for v in e.values():
                    if isinstance(v, str) and v in fnmap: live.add(fnmap[v])
        for v in F.get('live_checks', {}).values():
            if isinstance(v, str) and v in fnmap: live.add(fnmap[v])
        dyn = {}
        for (rel, line, col), d in A.dynamic.items():
            tg = set()
            for t in d['targets']:
                r, q = t.split(':', 1); tg.add((r, q))
            dyn[(rel, line, col)] = tg
        registry_targets = set()
        for tg in dyn.values():
            if any(('materialize_' in q or q.endswith('check_op_quantization_config') or 'calibrate' in q or 'init_qsvs' in q) for _, q in tg): registry_targets |= tg
        dead = registry_targets - live
        # edges of DYNAMIC call sites (registry look-ups) are restricted to the live targets; static calls keep all their targets
        out_edges = {}
        for (caller, line, col), callees in A.site_edges.items():
            cs = set(callees)
            if (caller[0], line, col) in dyn: cs -= dead
            out_edges.setdefault(caller, set()).update(cs)
        seen = set(C.roots); st = list(seen)
        while st:
            k = st.pop()
            for c in out_edges.get(k, ()):
                if c not in seen: seen.add(c); st.append(c)
        return seen, sorted(dead), sorted(live)
    return X.memo('live', go)

def rule_nonlinear(X, site):
    C = X.C
    for caller, call, conds in C.call_sites(site['fn']):
        g = [' '.join(ast.unparse(t).split()) for t, p in conds if p]
        if not any(t.startswith('isinstance(') and t.endswith('qtyping.NonLinearQuantParams)') for t in g): return core.UNKNOWN, 'ast-dataflow+exhaustive-native', f'call in {caller[1]} not under isinstance(.., NonLinearQuantParams): {g}'
    seen, dead, live = live_reach(X)
    ctor = []
    for k, fi in sorted(C.A.prog.fns.items()):
        for st in fi.stmts:
            for n in effects.Program._own_nodes(st):
                if isinstance(n, ast.Call) and ast.unparse(n.func).endswith('NonLinearQuantParams'): ctor.append(k)
    ctor = sorted(set(ctor))
    if not ctor: return core.UNKNOWN, 'ast-dataflow+exhaustive-native', 'no constructor of NonLinearQuantParams found (vacuous)'
    bad = [k for k in ctor if k in seen]
    if bad: return core.UNKNOWN, 'ast-dataflow+exhaustive-native', f'NonLinearQuantParams is constructed in {bad}, reachable under the live registry targets'
    algs = sorted({r['algorithm_key'] for rec in X.F['recipes'].values() for r in rec.get('rules', [])})
    return core.PROVED, 'ast-dataflow+exhaustive-native', (f'called only under isinstance(quant_params, NonLinearQuantParams); NonLinearQuantParams is constructed only in {[k[1] for k in ctor]} ({ctor[0][0]}), '
            f'functions the real registry never selects for the shipped recipes (algorithms named by shipped rules: {algs}; {len(dead)} registered functions dead under the resolution table)')

def rule_bitwidth(X, site):
    """num_bits reaching quant_params_to_tflite_type: census of every UniformQuantParams constructor + z3 table (added by dtype_tables)"""
    C = X.C; kinds = []; lits = set()
    for k, fi in sorted(C.A.prog.fns.items()):
        if k not in C.reach or fi.kind == 'module': continue
        for st_ in fi.stmts:
          for n in effects.Program._own_nodes(st_):
            if isinstance(n, ast.Call) and ast.unparse(n.func).endswith('UniformQuantParams') and not ast.unparse(n.func).endswith('from_tfl_tensor_details'):
                v = next((kw.value for kw in n.keywords if kw.arg == 'num_bits'), n.args[0] if n.args else None)
                if v is None: return core.UNKNOWN, 'z3+ast-dataflow', f'{k[1]}:{n.lineno} no num_bits argument'
                ok, why, ls = numbits_kind(fi.node, v)
                if not ok: return core.UNKNOWN, 'z3+ast-dataflow', f'{k[1]}:{n.lineno} num_bits={ast.unparse(v)}: {why}'
                kinds.append(f'{k[1]}:{n.lineno} {why}'); lits |= ls
    cfg_bits = set()
    for cid, c in X.F['configs'].items():
        for t in ('activation_tensor_config', 'weight_tensor_config'):
            if t in c: cfg_bits.add(int(c[t]['num_bits']))
    obs = set()
    for m in X.F['mini']:
        obs |= set(m.get('num_bits', []))
    allb = lits | cfg_bits | obs
    if not kinds: return core.UNKNOWN, 'z3+ast-dataflow', 'no constructor found (vacuous)'
    if any(b > 64 or b < 1 for b in allb): return core.UNKNOWN, 'z3+ast-dataflow', f'bit widths {sorted(allb)}'
    z = X.z3_tables.get('raises-only-above-64')
    if z != core.PROVED: return core.UNKNOWN, 'z3+ast-dataflow', f'dtype table obligation (contracts/graph.TfliteType) is {z}'
    return core.PROVED, 'z3+ast-dataflow', (f'z3: quant_params_to_tflite_type raises only for bitwidth > 64 (contracts/graph.TfliteType, re-run under this property); every UniformQuantParams constructor on the call trees takes num_bits from a literal, '
                                             f'a config / parameter field or a conditional of literals ({len(kinds)} constructors; literals {sorted(lits)}, shipped config widths {sorted(cfg_bits)}, widths observed in the one-operator runs {sorted(obs)})')
def numbits_kind(fnode, v):
    if isinstance(v, ast.Constant) and isinstance(v.value, int): return True, 'literal', {v.value}
    if isinstance(v, ast.Attribute) and v.attr == 'num_bits': return True, 'field copy', set()
    if isinstance(v, ast.IfExp) and all(isinstance(x, ast.Constant) for x in (v.body, v.orelse)): return True, 'conditional of literals', {v.body.value, v.orelse.value}
    if isinstance(v, ast.Name):
        a = assigns_to(fnode, v.id); ls = set()
        if not a: return False, 'unbound name', set()
        for st, val in a:
            if isinstance(st, (ast.For, ast.AsyncFor)):
                if isinstance(st.iter, (ast.List, ast.Tuple)) and all(isinstance(e, ast.Constant) for e in st.iter.elts): ls |= {e.value for e in st.iter.elts}
                else: return False, 'loop over a non-literal', set()
            else:
                ok, why, l2 = numbits_kind(fnode, val)
                if not ok: return False, why, set()
                ls |= l2
        return True, 'name bound to literals / field copies', ls
    return False, 'unrecognised expression', set()

def rule_quantize_recipe(X, site):
    if not has_guard(site, 'not self.get_quantization_recipe()', True): return core.UNKNOWN, 'exhaustive-native', f'guard changed: {guards(site)}'
    bad = [rid for rid, r in X.F['recipes'].items() if not r.get('nonempty')]
    return (core.PROVED if not bad else core.UNKNOWN), 'exhaustive-native', f'get_quantization_recipe() is non-empty after loading each of the {len(X.F["recipes"])} shipped recipes unchanged' if not bad else f'empty recipe: {bad}'

def finding_site(X, site):
    """decided by native search only: refuted when the stand-in reaches it; there is no unreachability argument (the site IS reachable on the pinned tree)"""
    return core.UNKNOWN, 'bounded-native', 'no unreachability argument: the guard depends on the composition of all consumers of a tensor (graph and calibration data)'

RULES = [
    # (file, function, ordinals or None = every site of the function, rule)
    (AMA, 'AlgorithmManagerApi.check_op_quantization_config', None, rule_gates), (NMM, 'check_op_quantization_config', None, rule_gates), (FC_, 'check_op_quantization_config', None, rule_gates),
    (MMU, 'check_if_valid_op_config', None, rule_gates), (MMU, 'check_subchannel_config', None, rule_gates), (QT, 'OpQuantizationConfig.__post_init__', None, rule_gates),
    (AMA, 'AlgorithmManagerApi.get_quantization_func', None, rule_dispatch), (AMA, 'AlgorithmManagerApi.get_init_qsv_func', None, rule_dispatch), (AMA, 'AlgorithmManagerApi.get_supported_ops', None, rule_dispatch),
    (MMU, 'get_tensor_transformations', None, rule_transformations),
    (MMU, 'init_tensor_min_max', ('raise', 1), rule_guard_eval('enclosing')), (UQT, 'uniform_quantize_for_emulated_subchannel', ('raise', 1), rule_guard_eval('call-site')),
    (ES, 'emulated_subchannel', None, rule_emulated), (TIG, 'TransformationInstructionsGenerator._check_tensor_transformation_instructions_valid', ('raise', 2), rule_emulated),
    (MMU, 'materialize_op_with_output_activation_constraint', ('raise', 2), mini_rule('the guard reads the activation num_bits of the resolved config and the dict literal of the dispatching materialize function: a function of (recipe, op key)')),
    (MMU, 'materialize_op_with_output_activation_constraint', ('raise', 1), mini_rule('the guard reads the number of outputs of the operator', PRE['arity'])),
    (MMU, '_get_single_tensor_params', ('raise', 1), mini_rule('the guard reads the number of float32, non-ignored inputs (same-as-input-scale ops) / outputs (same-as-output-scale ops) of the operator; ignore lists are literals of the materialize function', PRE['arity'])),
    (NMM, 'materialize_conv2d_transpose', ('raise', 1), mini_rule('the guard reads the number of operands of the operator (one entry per operand != -1)', PRE['arity'])),
    (CAL, 'Calibrator.__init__', ('raise', 1), rule_precondition(PRE['float_model'], [('not tfl_flatbuffer_utils.is_float_model(self._flatbuffer_model)', True)])),
    (PG, 'ParamsGenerator.__init__', ('raise', 1), rule_precondition(PRE['float_model'], [('not tfl_flatbuffer_utils.is_float_model(self.flatbuffer_model)', True)])),
    (PG, 'ParamsGenerator._check_tensor_names_are_unique', ('raise', 1), rule_precondition(PRE['unique'], [('tensor_name in global_tensor_names', True)])),
    (PG, 'ParamsGenerator._update_model_quant_results', ('raise', 1), rule_precondition(PRE['ssa'], [('op_tensor_result.producer is not None', True), ('tensor_params.producer is not None', True)])),
    (PG, 'ParamsGenerator.generate_quantization_parameters', ('raise', 1), rule_precondition(PRE['calibrated'], [('model_recipe_manager.need_calibration() and model_qsvs is None', True)])),
    (MMU, '_get_tensor_transformation_params_wrapper', ('raise', 1), rule_precondition(PRE['calibrated'], [('tensor_name not in tensor_name_to_qsv', True), ('is_constant', False)])),
    (MMU, '_get_tensor_quant_params', ('raise', 1), rule_precondition(PRE['calibrated'], [("'min' not in tensor_min_max or 'max' not in tensor_min_max", True)])),
    (TFU, 'read_model', ('raise', 1), rule_precondition(PRE['api'], [('isinstance(tflite_model, str)', False), ('isinstance(tflite_model, bytes) or isinstance(tflite_model, bytearray)', False)])),
    (QT, 'UniformQuantParams.from_tfl_tensor_details', ('raise', 1), rule_precondition(PRE['float_model'], [('is_tensor_quantized(', True)], callsite=True)),
    (QZ, 'Quantizer.quantize', ('raise', 1), rule_quantize_recipe),
    (UQT, '_round_and_clip', ('raise', 1), rule_round_and_clip),
    (QTEN, 'quant_params_to_tflite_type', ('raise', 1), rule_bitwidth), (QTEN, 'nonlinear_quant_params_to_tflite_type', ('raise', 1), rule_nonlinear),
    (TIG, 'TransformationInstructionsGenerator._apply_vertical_optimization', ('remove', 1), rule_remove_guarded), (TIG, 'TransformationInstructionsGenerator._apply_vertical_optimization', ('remove', 3), rule_remove_guarded),
    (TIG, 'TransformationInstructionsGenerator._apply_vertical_optimization', ('remove', 2), finding_site),
    (PG, 'ParamsGenerator._check_buffer_sharing', ('raise', 1), finding_site),
]
def rule_for(site):
    for rel, qual, sel, rule in RULES:
        if site['fn'] == (rel, qual) and (sel is None or sel == (site['kind'], site['ordinal'])): return rule
    return None
def is_unreached_listed(site):
    k = site['fn']
    return k in UNREACHED or (k[0], f'{k[1]}@{site["ordinal"]}') in UNREACHED

def guard_requests(C):
    """guard expressions to be evaluated natively: site id -> (relpath of the module whose globals resolve the names, expression text, value that would make the site reachable)"""
    req = {}
    for s in C.sites:
        if s['fn'] == (MMU, 'init_tensor_min_max') and s['kind'] == 'raise':
            for t, pol in s['conds']:
                txt = ' '.join(ast.unparse(t).split())
                if 'BLOCKWISE' in txt and 'op_info.op_quant_config' in txt: req[s['id']] = (MMU, txt, pol)
        if s['fn'] == (UQT, 'uniform_quantize_for_emulated_subchannel') and s['kind'] == 'raise':
            texts = set()
            for caller, call, conds in C.call_sites(s['fn']):
                g = [(' '.join(ast.unparse(t).split()), pol) for t, pol in conds if 'BLOCKWISE' in ast.unparse(t)]
                if len(g) == 1 and g[0][1]: texts.add((caller[0], g[0][0]))
                else: texts.add((caller[0], None))
            if len(texts) == 1 and list(texts)[0][1]: req[s['id']] = (list(texts)[0][0], list(texts)[0][1], True)
    return req

# ================================================================================================ stand-in
def attribute(C, fail):
    """failure -> census site (by file + line range of the site's statement) or None"""
    st = fail.get('site')
    if not st: return None
    for s in C.sites:
        if s['fn'][0] == st[0] and s['line'] <= st[2] <= s['end'] and s['fn'][1].split('.')[-1] == st[1]: return s
    return None

def run_standin(rep, C, tier, seed, mut=None, specs=None, rids=None):
    from replay import c08_models as M
    specs = specs if specs is not None else M.cases(tier, seed)
    rids = rids if rids is not None else M.recipe_ids(False)
    fails, n = M.run_many(rids, specs, n_samples=1 + seed % 2, seed=seed, mut=mut, with_classes=True)
    return specs, rids, fails, n

# ================================================================================================ run
def decide_sites(C, F, reached, z3_tables, rep=None):
    X = Ctx(C, F, reached); X.guard_req = guard_requests(C); X.z3_tables = z3_tables
    obs = []; listed = []
    for s in C.sites:
        if is_unreached_listed(s): listed.append(s); continue
        fn = None
        try: fn = core.Fn(s['fn'][0], s['fn'][1], src_override=C.overrides.get(s['fn'][0]))
        except LookupError: pass
        if rep is not None and fn is not None and not C.overrides: rep.fn(fn)
        rule = rule_for(s); t0 = time.time()
        if rule is finding_site and not reached.get(s['id']):
            # graph-dependent site with no unreachability argument that the native search does not reach (e.g. after a repair): reported like the UNREACHED sites, not an obligation
            listed.append(s); continue
        clause = f'`{s["text"][:110]}` (line {s["line"]}) is unreachable under Pre8, or its {s["exc"]} cannot escape to load_quantization_recipe / calibrate / quantize; enclosing tests: {guards(s)[-2:]}'
        if rule is None:
            st, be, det = core.UNKNOWN, 'census', 'NEW raise site: no unreachability argument is registered for it'
        else:
            try: st, be, det = rule(X, s)
            except Exception as e: st, be, det = core.UNKNOWN, 'census', f'argument crashed: {type(e).__name__}: {e}'
        ob = core.Ob(s['id'], fn, be, st, time.time() - t0, clause=clause)
        if isinstance(det, dict): ob.replay = det; ob.detail = str(det.get('observed'))[:300]
        else: ob.detail = det
        hits = sorted(reached.get(s['id'], []), key=lambda h: (any(b < -1 for _, _, b in h[1]['ops']), len(h[1]['ops']), len(h[1]['outs']), 'a8w8' not in h[0], json.dumps(h[1]), h[0]))
        if hits:
            rid, spec, r = hits[0]
            if st == core.PROVED and rep is not None: rep.errors.append(f'{s["id"]}: the registered unreachability argument is contradicted by a native run')
            ob.status = core.REFUTED; ob.backend = 'bounded-native'
            ob.detail = f'reached natively by {len(hits)} generated model(s) through the public API; first: {rid} {json.dumps(spec)}: {r.get("exc")}: {r.get("msg")}'
            ob.replay = dict(confirmed=True, inputs=dict(level='api', recipe=rid, spec=spec, n_samples=r.get('n_samples', 1), seed=r.get('seed', 0)), observed={k: r.get(k) for k in ('stage', 'exc', 'msg', 'site')}, failing_models=len(hits),
                             more=_diverse(hits[1:]))
        ob.site = s; obs.append(ob)
    return obs, listed, X

def _diverse(hits):
    """a few further failing inputs of different shape: other recipe, exported intermediate tensor, tied constant"""
    out = []; seen = set()
    for a, b, r in hits:
        cat = (a, len(b['outs']) > 1, any(x < -1 for _, _, x in b['ops']))
        if cat in seen: continue
        seen.add(cat); out.append(dict(recipe=a, spec=b, exported_intermediate=cat[1], constant_operand=cat[2]))
        if len(out) >= 8: break
    return out

def exclusion_argument(X, kid_class, site):
    """function-level argument that OUTSIDE the class the site is not reached -> (ok, text)"""
    F = X.F
    if kid_class == 'divergent-consumer-parameters':
        bad = []; n = 0
        for p in F['pair_lemma']:
            in_class = (p['p1'] is not None and p['p2'] is not None and p['p1'] != p['p2']) or ((p['p1'] is None) != (p['p2'] is None) and _quantizes_storage(p['w1'], p['w2']))
            if in_class: continue
            n += 1
            if p['result'] is not True: bad.append(p)
        lift = F['lift']
        if bad: return False, f'outside the class the real _compatible_tensor_params rejects a pair: {bad[0]}'
        if lift['bad'] or lift['converse_bad']: return False, f'pairwise compatibility does not lift to _compatible_tensor_transformation_params: {lift}'
        return True, (f'outside the class (two consumers that both carry parameters carry equal ones; no consumer quantizes the stored tensor while another reads it as float) the real _compatible_tensor_params accepts all {n} pairs of consumer entries '
                      f'(entry kinds = those the real materialisation produced in the one-operator runs, opaque parameter tokens: complete by parametricity) and, with Pre8 one-buffer-per-tensor (a buffer lists one tensor, possibly several times), '
                      f'_compatible_tensor_transformation_params(p, p) is true whenever all consumers are pairwise compatible with the first ({lift["cases"]} cases, up to 3 consumers)')
    if kid_class == 'repeated-operand-requantized':
        v = F['vertical']
        if v['bad']: return False, f'_apply_vertical_optimization raises without a repeated consumer id: {v["bad"][0]}'
        if v['repeated_id_raises'] is not True: return False, 'the witness shape of the class no longer raises at function level'
        return True, (f'outside the class (no operator reads the tensor in two operand slots, so every consumer id occurs once over all rules) the real _apply_vertical_optimization never raises: {v["cases"]} abstract cases '
                      f'(1..4 consumers incl. the graph-output marker, every partition into rules, every consumer kind the materialisation produces, equal / different parameter tokens, producer kinds {v["producer_words"]}); bounded in the number of consumers')
    return False, f'unknown class {kid_class}'
def _quantizes_storage(w1, w2):
    q = ('QUANTIZE_TENSOR', 'ADD_DEQUANTIZE')
    return (w1[0] in q) != (w2[0] in q)

def in_class(kid_class, r):
    c = r.get('classes') or {}
    if kid_class == 'divergent-consumer-parameters': return bool(c.get('divergent'))
    if kid_class == 'repeated-operand-requantized': return bool(c.get('repeated')) and bool(c.get('requant'))
    return False

def witness_fails(k, site_id, C):
    from replay import c08_models as M
    w = k.get('witness') or {}
    try:
        r = M.run_case_with_classes(w['recipe'], M.norm(w['spec']), w.get('n_samples', 1), w.get('seed', 0), interp=False)      # no LiteRT step in the parent process
    except Exception as e: return False, f'witness could not run: {type(e).__name__}: {e}'
    s = attribute(C, r) if r['status'] == 'raise' else None
    return (s is not None and s['id'] == site_id and in_class(k.get('class_predicate'), r)), r

def run(rep):
    t_ = [time.time()]; ph = {}
    def lap(k): ph[k] = round(time.time() - t_[0], 1); t_[0] = time.time()
    from replay import c08_models as M, c08_native as NV
    tier, seed = rep.tier, rep.seed
    C = CC.Census(); lap('census')
    for s in C.sites: s['end'] = getattr(s['node'], 'end_lineno', s['line'])
    for r in C.missing_roots: rep.errors.append(f'entry point {r} not found')
    greq = guard_requests(C)
    F = NV.facts(guards=[(sid, rel, txt) for sid, (rel, txt, pol) in sorted(greq.items())]); lap('native facts')
    if 'crash' in F: rep.errors.append('native facts crashed: ' + F['crash'] + ' ' + F.get('trace', '')[-300:]); return
    # ---- bounded stand-in through the public API
    specs, rids, fails, nruns = run_standin(rep, C, tier, seed); lap('stand-in')
    reached = {}; unattributed = []; litert = []
    for rid, spec, r in fails:
        r['seed'] = seed; r['n_samples'] = 1 + seed % 2
        s = attribute(C, r) if r['status'] == 'raise' else None
        if r['status'] == 'interp': litert.append((rid, spec, r))
        elif r['status'] == 'checker-crash': rep.errors.append(f'stand-in harness crashed on {rid} {json.dumps(spec)}: {r.get("exc")}: {r.get("msg")}')
        elif s is None: unattributed.append((rid, spec, r))
        else: reached.setdefault(s['id'], []).append((rid, spec, r))
    # deterministic probe of the runtime step on degenerate calibration ranges (a tensor that is exactly zero): fixed data seed 7
    dfails, druns = M.run_many(rids, M.DEGENERATE, n_samples=1, seed=7)
    for rid, spec, r in dfails:
        r['seed'] = 7; r['n_samples'] = 1
        if r['status'] == 'interp': litert.append((rid, spec, r))
        else:
            s = attribute(C, r) if r['status'] == 'raise' else None
            if s is None: unattributed.append((rid, spec, r))
            else: reached.setdefault(s['id'], []).append((rid, spec, r))
    lap('degenerate-range probe')
    # sample recipe, separately
    sample_ids = [r for r in M.recipe_ids(True) if r not in rids]
    sfails, sruns = M.run_many(sample_ids, [s for s in specs if len(s['ops']) <= 2], n_samples=1, seed=seed, with_classes=True) if sample_ids else ([], 0); lap('stand-in (sample recipe)')
    for rid, spec, r in sfails:
        r['seed'] = seed; r['n_samples'] = 1
        if r['status'] == 'interp': litert.append((rid, spec, r))
    sfails = [f for f in sfails if f[2]['status'] != 'interp']
    # ---- z3: dtype tables (re-run of the contracts of props/graphcommon.dtype_tables under this property)
    from props import graphcommon as gc
    zobs = gc.dtype_tables(rep, 'C08'); z3_tables = {}
    for o in zobs:
        if 'only-above-64' in o.id: z3_tables['raises-only-above-64'] = o.status
    lap('z3 dtype tables')
    # ---- one obligation per census site
    for rel, qual in [GATE_LOAD, GATE_RESOLVE, (RM, 'RecipeManager.add_quantization_config'), (PG, '_compatible_tensor_params'), (PG, '_compatible_tensor_transformation_params'), (PG, '_same_tensor_params_except_id'),
                      (MMU, 'get_tensor_transformation_params'), (CAL, 'Calibrator.calibrate'), (CAL, 'Calibrator._initialize_model_qsvs'), (QZ, 'Quantizer.__init__'), (QZ, 'Quantizer.load_quantization_recipe'), (QZ, 'Quantizer.calibrate'),
                      (TFU, 'buffer_to_tensors'), ('transformation_performer.py', 'TransformationPerformer._apply_single_transformation')]:
        try: rep.fn(core.Fn(rel, qual))
        except LookupError as e: rep.errors.append(f'function used by an argument not found: {e}')
    obs, listed, X = decide_sites(C, F, reached, z3_tables, rep)
    kf_done = set()
    for ob in obs:
        k = rep.finding_for(ob.id)
        if k is not None and ob.status != core.PROVED:
            wf, wr = witness_fails(k, ob.id, C)
            if wf:
                if k['id'] not in kf_done: rep.known_finding(k, True); kf_done.add(k['id'])
                cls = k.get('class_predicate'); hits = reached.get(ob.id, [])
                outside = [(a, b, r) for a, b, r in hits if not in_class(cls, r)]
                ok, why = exclusion_argument(X, cls, ob.site)
                ob.id += '[excluding:' + k['id'] + ']'; ob.backend = 'exhaustive-native+bounded-native+class-exclusion'
                if outside:
                    a, b, r = outside[0]; ob.status = core.REFUTED
                    ob.detail = f'{len(outside)} of {len(hits)} natively failing models at this site are OUTSIDE the class of {k["id"]}; first: {a} {json.dumps(b)}'
                    ob.replay = dict(confirmed=True, inputs=dict(level='api', recipe=a, spec=b, n_samples=r.get('n_samples', 1), seed=r.get('seed', 0)), observed={kk: r.get(kk) for kk in ('stage', 'exc', 'msg', 'site', 'classes')})
                elif not ok: ob.status = core.UNKNOWN; ob.detail = why; ob.replay = None
                else:
                    ob.status = core.PROVED; ob.replay = None
                    ob.detail = f'all {len(hits)} natively failing models at this site belong to the class; {why}'
            elif k['id'] not in kf_done: rep.known_finding(k, False); kf_done.add(k['id']); rep.notes.append(f'witness of {k["id"]}: {str(wr)[:200]}')
        if rep.lock and ob.status != core.PROVED and ob.id.split('[')[0] not in {i.split('[')[0] for i in rep.lock}:
            ob.detail = 'NOT IN obligations.lock.json (new raise site or newly failing site). ' + str(ob.detail)
        rep.add(ob)
    lap('site obligations')
    # failures that no census site explains (implicit raises, LiteRT refusing the result)
    seen = set()
    for rid, spec, r in unattributed:
        key = (r['status'], r.get('exc'), tuple(r.get('site') or ())[:2])
        if key in seen: continue
        seen.add(key)
        where = '.'.join(str(x) for x in (r.get('site') or ('litert',))[:2])
        rep.add(core.Ob(f'C08/bounded.pipeline/{r["status"]}:{r.get("exc")}@{where}', None, 'bounded-native', core.REFUTED, 0.0, detail=f'{rid} {json.dumps(spec)}: {r.get("msg")}',
                        clause='load / calibrate / quantize raise nothing and LiteRT allocates + invokes the result (failure outside every census site)',
                        replay=dict(confirmed=True, inputs=dict(level='api', recipe=rid, spec=spec, n_samples=r.get('n_samples', 1), seed=seed), observed=r)))
    kf_sites = {o.site['id'] for o in obs if '[excluding:' in o.id and o.status == core.PROVED}
    counted = [f for f in fails if not ((attribute(C, f[2]) or {}).get('id') in kf_sites)]
    by_site = {}
    for rid, spec, r in fails:
        s = attribute(C, r); by_site[(s or {}).get('id', 'unattributed')] = by_site.get((s or {}).get('id', 'unattributed'), 0) + 1
    rep.add_bounded('Quantizer(model, shipped recipe) -> calibrate (when needed) -> quantize -> LiteRT allocate + invoke (real public API; any exception is a failure)',
                    f'{len(rids)} shipped recipes {rids} x {len(specs)} generated models; {M.SCOPE}; calibration with {1 + seed % 2} seeded random sample(s); seed {seed}', nruns, len(counted),
                    note=f'failures by census site: {by_site}' + (f'; failures at {sorted(kf_sites)} belong to listed known findings and are excluded' if kf_sites else ''))
    # one Quantizer used for two shipped recipes in a row (a shipped recipe "loaded unchanged" into an object that has quantized before): the second run must not be rejected where a fresh object accepts
    frids = [r for r in rids if r.startswith('file:')]; seq_runs = 0; seq_fail = []
    for sp in M.SEQ_SPECS:
        for ra in frids:
            for rb in frids:
                if ra == rb: continue
                second, fresh = M.run_sequence(ra, rb, sp, n_samples=1, seed=seed); seq_runs += 1
                if fresh['status'] == 'ok' and second['status'] != 'ok': seq_fail.append((ra, rb, sp, second))
    rep.add_bounded('ONE Quantizer, two shipped recipes in a row (load A, calibrate/quantize, load B unchanged, calibrate/quantize): the second run raises nothing wherever a fresh Quantizer with B raises nothing',
                    f'{len(frids)} x {len(frids) - 1} ordered pairs of shipped recipe files x {len(M.SEQ_SPECS)} models {M.SEQ_SPECS}', seq_runs, len(seq_fail), note='; '.join(f'{a} then {b}: {r.get("exc")}: {r.get("msg")}' for a, b, _, r in seq_fail[:3]))
    if seq_fail:
        ra, rb, sp, r = seq_fail[0]
        rep.add(core.Ob(f'C08/bounded.sequence/{r.get("exc")}@second-recipe', None, 'bounded-native', core.REFUTED, 0.0, detail=f'{ra} then {rb} on {json.dumps(sp)}: {r.get("msg")}',
                        clause='a shipped recipe loaded unchanged into a Quantizer that has already quantized with another shipped recipe quantizes every model a fresh Quantizer quantizes',
                        replay=dict(confirmed=True, inputs=dict(level='sequence', first=ra, recipe=rb, spec=sp, n_samples=1, seed=seed), observed=r)))
    # the runtime step: belongs to C01 (runtime-loadable result), NOT to the statement of C08 (quantize() returns and raises nothing): reported, not a violation here
    rep.add_bounded('LiteRT allocate_tensors + invoke on the model returned by quantize() (clause of C01, exercised here as a by-product; failures are reported as NOTE, they are not violations of C08)',
                    f'every successful pipeline run of the stand-in above plus {len(M.DEGENERATE)} degenerate-range models {M.DEGENERATE} x shipped recipes with fixed calibration data (seed 7)', (nruns - len(fails)) + druns, len(litert),
                    note='; '.join(f'{a} {json.dumps(b)} (data seed {r.get("seed")}): {r.get("msg")}' for a, b, r in litert[:4]))
    if litert:
        a, b, r = litert[0]
        rep.notes.append(f'RUNTIME (C01, not C08): {len(litert)} model(s) returned by quantize() make LiteRT fail / abort in allocate_tensors+invoke, e.g. {a} {json.dumps(b)} with calibration data seed {r.get("seed")}: {r.get("msg")}')
        pob = core.Ob('C08/note.litert-refuses-returned-model', None, 'bounded-native', core.REFUTED, 0.0, clause='(C01) LiteRT allocates and invokes the model returned by quantize()')
        rep.extra['litert_failure_replay'] = rep.write_replay(pob, dict(confirmed=True, inputs=dict(level='api', recipe=a, spec=b, n_samples=r.get('n_samples', 1), seed=r.get('seed', 0)), observed=r,
                                                              more=[dict(recipe=x, spec=y, seed=z.get('seed')) for x, y, z in litert[1:6]]))
    sb = {}
    for rid, spec, r in sfails:
        s = attribute(C, r); sb[(s or {}).get('id', 'unattributed')] = sb.get((s or {}).get('id', 'unattributed'), 0) + 1
    refuted_sites = {o.site['id'] for o in obs if o.status == core.REFUTED}
    s_counted = [f for f in sfails if not ((attribute(C, f[2]) or {}).get('id') in kf_sites)]
    s_new = [f for f in s_counted if (attribute(C, f[2]) or {}).get('id') not in refuted_sites]
    if sample_ids:
        rep.add_bounded('same pipeline with the SAMPLE recipe file(s) (not one of the five default recipes; reported separately)', f'{sample_ids} x all generated models with <= 2 operators', sruns, len(s_counted), note=f'failures by census site: {sb}')
        for rid, spec, r in s_new[:1]:
            rep.add(core.Ob(f'C08/bounded.pipeline.sample-recipe/{r.get("exc")}', None, 'bounded-native', core.REFUTED, 0.0, detail=f'{rid} {json.dumps(spec)}: {r.get("msg")}', clause='sample recipe: quantize() raises nothing',
                            replay=dict(confirmed=True, inputs=dict(level='api', recipe=rid, spec=spec, n_samples=1, seed=seed), observed=r)))
    # sites that are not obligations
    hit_listed = [s['id'] for s in listed if s['id'] in reached]
    rep.add_bounded('unreached-in-bounded-search: raise sites with NO unreachability argument (not obligations)',
                    'sites: ' + '; '.join(f'{s["id"]} [{UNREACHED.get(s["fn"]) or UNREACHED.get((s["fn"][0], s["fn"][1] + "@" + str(s["ordinal"]))) or "guard depends on the composition of all consumers of a tensor; reachable on the pinned tree (known finding), not reached by this run"}]' for s in listed) +
                    '. Evidence: never raised in the stand-in above nor in the one-operator materialisation runs', nruns + sum(1 for m in F['mini'] if m.get('ok')), len(hit_listed))
    for sid in hit_listed:
        rid, spec, r = reached[sid][0]
        rep.add(core.Ob(sid, None, 'bounded-native', core.REFUTED, 0.0, detail=f'{rid} {json.dumps(spec)}: {r.get("msg")}', clause='site listed as unreached is reached natively',
                        replay=dict(confirmed=True, inputs=dict(level='api', recipe=rid, spec=spec, n_samples=r.get('n_samples', 1), seed=seed), observed=r)))
    mini_ok = sum(1 for m in F['mini'] if m.get('ok')); mini_bad = [m for m in F['mini'] if not m.get('ok') and not m.get('skipped')]
    rep.add_bounded('materialize function selected by the real registry on real one-operator graphs (contracts/c04_minigraph), statistics from the real init / calibrate functions',
                    'every shipped recipe (incl. sample) x every op key of TFL_OP_CODE_TO_NAME + INPUT/OUTPUT x operand patterns (bias yes/no, constant second operand, BATCH_MATMUL adj_y / activation rhs); one fixed shape per op', mini_ok + len(mini_bad), len(mini_bad),
                    note=str([{k: m.get(k) for k in ('rid', 'op', 'variant', 'exc', 'msg')} for m in mini_bad[:3]]) if mini_bad else 'used as exhaustive enumeration only for guards that do not depend on shapes or data (see the site obligations)')
    lap('book-keeping')
    # ---- covers
    rep.cover('census non-trivial (>= 40 sites on >= 100 functions)', len(C.sites) >= 40 and len(C.reach) >= 100)
    dyn = {(d['fn'], d['callee']): d['targets'] for d in C.A.dynamic_in(set(C.A.prog.fns))}
    rep.cover('registry dispatch resolved from source (materialize functions on the call tree)', any('materialize_' in t for tg in dyn.values() for t in tg))
    rep.cover('the resolution-time support check is enclosed in try/except ValueError', (AMA, 'AlgorithmManagerApi.check_op_quantization_config') not in C.reach_escaping('ValueError', cut={GATE_LOAD}))
    rep.cover('stand-in: some pipelines succeed', nruns - len(fails) > 0)
    rep.cover('some shipped recipe leaves an op key of the table unquantized (the "*" fallback is exercised)', any(row[''].get('alg') == 'no_quantize' for rid in rids for k, row in F['resolution'].get(rid, {}).items() if k in F['possible_op_keys']))
    rep.cover('every shipped recipe quantizes FULLY_CONNECTED', all(F['resolution'].get(rid, {}).get('FULLY_CONNECTED', {}).get('', {}).get('alg', 'no_quantize') != 'no_quantize' for rid in rids))
    rep.cover('models in the stand-in satisfy the normal form of Pre8', all(M.normal_form(M.build(s)) for s in specs[::max(1, len(specs) // 200)]))
    # ---- canaries
    canaries(rep, C, F, specs, rids, z3_tables); lap('canaries')
    # ---- evidence
    rep.extra['census'] = dict(functions_on_call_trees=len(C.reach), sites=len(C.sites), explicit_raise=sum(1 for s in C.sites if s['kind'] == 'raise'), list_remove=sum(1 for s in C.sites if s['kind'] == 'remove'),
                               obligations=len(obs), listed_unreached=[s['id'] for s in listed], roots=[f'{r[0]}:{r[1]}' for r in C.roots],
                               by_backend={b: sum(1 for o in obs if o.backend == b) for b in sorted({o.backend for o in obs})})
    rep.extra['resolution_table'] = {rid: {k: row[''].get('alg', 'ERROR') for k, row in tab.items()} for rid, tab in F['resolution'].items()}
    rep.extra['phases_s'] = ph
    whole_lock = core.load_json(core.LOCK_PATH, {})
    c10 = [i for i in whole_lock.get('C10', {}) if '/callsite.' in i]
    rep.extra['cited'] = dict(C10_callsite_obligations_in_lock=len(c10), C03_family_i=F.get('c03_admitted'))
    if not c10: rep.notes.append('the calibrated-names clause of Pre8 cites the relational call-site obligations of C10; none is present in obligations.lock.json')
    rep.assume('Pre8 as stated in the docstring of props/C08.py (recipe / model / calib clauses); obligations with backend `precondition` hold BECAUSE of Pre8 and prove nothing about models outside it')
    rep.assume('only explicit `raise` statements and list.remove calls are census sites; other implicitly raising operations (subscripts, dict look-ups, next(iter(..)), numpy shape errors, attribute access on None) '
               'are exercised by the bounded stand-in only')
    rep.assume('re.search(".*", s) matches every string s (the resolution of a shipped recipe does not depend on the scope); checked natively on 3 scopes per (recipe, op key)')
    rep.assume('multi-subgraph models (control-flow bodies, several signatures) are outside this check: a body subgraph is never calibrated, so the calibrated-names clause of Pre8 fails for it (C19 treats multi-subgraph models)')
    rep.assume('exhaustive-native(op-signature): the named guards depend only on (recipe, op key, operand pattern), not on shapes or data; one fixed shape per operator is used')
    rep.assume('class exclusion of a known finding: outside the class the function-level enumeration is complete in the entry kinds and parameter equality classes but bounded in the number of consumers (<= 3 for the compatibility lifting, <= 4 for the vertical optimisation)')
    rep.trust('call graph and registry dispatch resolution of vlib/effects.py (conservative: unresolved calls are reported by props/C14.py); exceptions raised inside TensorFlow / LiteRT / numpy are outside the census')
    rep.trust('tracebacks identify the raising statement (site attribution of native failures)')

# ================================================================================================ canaries
def canaries(rep, C, F, specs, rids, z3_tables):
    from replay import c08_models as M, c08_native as NV
    small = [s for s in specs if len(s['ops']) <= 2]
    # (a) a new reachable raise in a materialize function: the census reports a site without argument; natively reached by the stand-in
    src = core.read_source(NMM); a = '  """Materialize tensors in tfl.add."""\n'
    if a in src:
        mut = {NMM: src.replace(a, a + "  if len(op_info.op.inputs) == 2:\n    raise ValueError('binary add rejected')\n", 1)}
        try:
            C2 = CC.Census(mut)
            for s in C2.sites: s['end'] = getattr(s['node'], 'end_lineno', s['line'])
            new = [s for s in C2.sites if s['id'] not in {x['id'] for x in C.sites}]
            fails, n = M.run_many(rids[:2], [s for s in small if len(s['ops']) == 1], n_samples=1, seed=0, mut=mut)
            reached = {}
            for rid, spec, r in fails:
                s = attribute(C2, r)
                if s is not None: reached.setdefault(s['id'], []).append((rid, spec, r))
            obs2, _, _ = decide_sites(C2, F, reached, z3_tables)
            bad = [o for o in obs2 if o.status != core.PROVED and o.id in {s['id'] for s in new}]
            in_lock = [o.id for o in bad if o.id in rep.lock]
            rep.canary('new `raise ValueError` in materialize_add', bool(new) and len(bad) == len(new) and not in_lock and any(o.status == core.REFUTED for o in bad),
                       f'new sites {[s["id"] for s in new]} -> {[(o.id, o.status, o.backend) for o in bad]}; {len(fails)}/{n} pipelines fail')
        except Exception as e: rep.canary('new `raise ValueError` in materialize_add', False, f'crashed: {type(e).__name__}: {e}')
    else: rep.canary('new `raise ValueError` in materialize_add', False, 'mutation site not found (stale canary)')
    # (a') a new raise the stand-in cannot reach is still an unproved obligation
    a2 = '  """Materialize tensors in tfl.batch_matmul."""\n'
    if a2 in src:
        mut = {NMM: src.replace(a2, a2 + "  if op_info.op.builtinOptions is None:\n    raise ValueError('options required')\n", 1)}
        try:
            C2 = CC.Census(mut)
            for s in C2.sites: s['end'] = getattr(s['node'], 'end_lineno', s['line'])
            new = [s for s in C2.sites if s['id'] not in {x['id'] for x in C.sites}]
            obs2, _, _ = decide_sites(C2, F, {}, z3_tables)
            bad = [o for o in obs2 if o.status != core.PROVED and o.id in {s['id'] for s in new}]
            rep.canary('new raise in materialize_batch_matmul (not reachable by the generated models)', bool(new) and len(bad) == len(new), f'{[(o.id, o.status) for o in bad]}')
        except Exception as e: rep.canary('new raise in materialize_batch_matmul (not reachable by the generated models)', False, f'crashed: {type(e).__name__}: {e}')
    else: rep.canary('new raise in materialize_batch_matmul (not reachable by the generated models)', False, 'mutation site not found (stale canary)')
    # (b) _compatible_tensor_params stricter: two consumers with equal parameters are rejected
    src = core.read_source(PG); b = '  if _same_tensor_params_except_id(params1, params2):\n    return True\n'
    if b in src:
        mut = {PG: src.replace(b, '  if _same_tensor_params_except_id(params1, params2):\n    return params1.subgraph_op_id == params2.subgraph_op_id\n', 1)}
        try:
            two = [s for s in small if len(s['ops']) == 2 and not any(k == 'CONCATENATION' for k, _, _ in s['ops'])]
            fails, n = M.run_many([r for r in rids if 'a8w8' in r][:1], two, n_samples=1, seed=0, mut=mut, with_classes=True)
            outside = [f for f in fails if (attribute(C, f[2]) or {}).get('id', '').endswith('_check_buffer_sharing/raise@1:RuntimeError') and not in_class('divergent-consumer-parameters', f[2])]
            F2 = NV.facts(mut=mut, sample=False, want_lines=False)
            X2 = Ctx(C, F2, {}); ok2, why2 = exclusion_argument(X2, 'divergent-consumer-parameters', None) if 'crash' not in F2 else (True, F2.get('crash'))
            rep.canary('_compatible_tensor_params requires identical subgraph_op_id', bool(outside) and not ok2, f'{len(outside)} of {len(fails)} failing two-consumer models are outside the known-finding class (of {n}); pair lemma under the mutant: {why2[:160]}')
        except Exception as e: rep.canary('_compatible_tensor_params requires identical subgraph_op_id', False, f'crashed: {type(e).__name__}: {e}')
    else: rep.canary('_compatible_tensor_params requires identical subgraph_op_id', False, 'mutation site not found (stale canary)')
    # (c) try/except around the support check at resolution time removed
    src = core.read_source(RM)
    c_old = ("            try:\n              algorithm_manager.check_op_quantization_config(\n                  recipe.algorithm_key, target_op_name, recipe.op_config\n              )\n"
             "            except ValueError:\n              continue  # Skip the recipe if it is not supported.\n")
    c_new = "            algorithm_manager.check_op_quantization_config(\n                recipe.algorithm_key, target_op_name, recipe.op_config\n            )\n"
    if c_old in src:
        mut = {RM: src.replace(c_old, c_new, 1)}
        try:
            C2 = CC.Census(mut)
            for s in C2.sites: s['end'] = getattr(s['node'], 'end_lineno', s['line'])
            F2 = NV.facts(mut=mut, sample=False, want_lines=False)
            fails, n = M.run_many(rids, [s for s in small if len(s['ops']) == 1], n_samples=1, seed=0, mut=mut)
            reached = {}
            for rid, spec, r in fails:
                s = attribute(C2, r)
                if s is not None: reached.setdefault(s['id'], []).append((rid, spec, r))
            obs2, _, _ = decide_sites(C2, F2, reached, z3_tables) if 'crash' not in F2 else ([], None, None)
            gate_sites = [o for o in obs2 if rule_for(o.site) is rule_gates]
            lost = [o for o in gate_sites if o.status != core.PROVED]; ref = [o for o in gate_sites if o.status == core.REFUTED]
            rep.canary('try/except around the support check in RecipeManager.get_quantization_configs removed', bool(gate_sites) and len(lost) == len(gate_sites) and bool(ref) and bool(fails),
                       f'{len(lost)}/{len(gate_sites)} resolution-time sites lose their proof, refuted natively: {[o.id.split("/")[1] + "/" + o.id.split("/")[2] for o in ref][:3]}; {len(fails)}/{n} one-operator pipelines fail')
        except Exception as e: rep.canary('try/except around the support check in RecipeManager.get_quantization_configs removed', False, f'crashed: {type(e).__name__}: {e}')
    else: rep.canary('try/except around the support check in RecipeManager.get_quantization_configs removed', False, 'mutation site not found (stale canary)')
    # (d) a shipped-recipe-admitted config that get_tensor_transformations rejects (mode chain loses its weight-only branch)
    src = core.read_source(MMU); d_old = '      op_quant_config.compute_precision == qtyping.ComputePrecision.FLOAT\n      and op_quant_config.explicit_dequantize\n  ):'
    if d_old in src:
        mut = {MMU: src.replace(d_old, '      op_quant_config.compute_precision == qtyping.ComputePrecision.FLOAT\n      and not op_quant_config.explicit_dequantize\n  ):', 1)}
        try:
            F2 = NV.facts(mut=mut, sample=False, want_lines=False)
            obs2, _, _ = decide_sites(C, F2, {}, z3_tables) if 'crash' not in F2 else ([], None, None)
            o = [x for x in obs2 if x.site['fn'] == (MMU, 'get_tensor_transformations')]
            rep.canary('get_tensor_transformations: weight-only branch inverted', bool(o) and all(x.status == core.REFUTED for x in o), str([(x.id, x.status) for x in o]))
        except Exception as e: rep.canary('get_tensor_transformations: weight-only branch inverted', False, f'crashed: {type(e).__name__}: {e}')
    else: rep.canary('get_tensor_transformations: weight-only branch inverted', False, 'mutation site not found (stale canary)')
    # (e) the guarded remove loses its guard
    src = core.read_source(TIG); e_old = '      elif check_dq_no_quant_elimination(producer_trans_rule, trans_rule):\n        for consumer_id in trans_rule.consumers:\n          if consumer_id in producer_trans_rule.consumers:\n            producer_trans_rule.consumers.remove(consumer_id)\n'
    if e_old in src:
        mut = {TIG: src.replace(e_old, '      elif check_dq_no_quant_elimination(producer_trans_rule, trans_rule):\n        for consumer_id in trans_rule.consumers:\n          if True:\n            producer_trans_rule.consumers.remove(consumer_id)\n', 1)}
        try:
            C2 = CC.Census(mut)
            for s in C2.sites: s['end'] = getattr(s['node'], 'end_lineno', s['line'])
            obs2, _, _ = decide_sites(C2, F, {}, z3_tables)
            o = [x for x in obs2 if x.site['fn'][1].endswith('_apply_vertical_optimization') and x.site['kind'] == 'remove' and x.site['ordinal'] == 3]
            rep.canary('membership guard of the third list.remove dropped', bool(o) and o[0].status != core.PROVED, str([(x.id, x.status) for x in o]))
        except Exception as e: rep.canary('membership guard of the third list.remove dropped', False, f'crashed: {type(e).__name__}: {e}')
    else: rep.canary('membership guard of the third list.remove dropped', False, 'mutation site not found (stale canary)')

    # (f), (g): census-only mutants of the syntactic side of two arguments
    for name, rel, a_, b_, pick in [
        ('ParamsGenerator.__init__: the float-model test replaced by another test (guard no longer a clause of Pre8)', PG, 'if not tfl_flatbuffer_utils.is_float_model(self.flatbuffer_model):', 'if len(self.flatbuffer_model.subgraphs) > 1:',
         lambda x: x.site['fn'] == (PG, 'ParamsGenerator.__init__')),
        ('generate_quantization_parameters: registry asked for a fixed op key instead of the resolved one', PG, '              algorithm_name,\n              op_key,\n              qtyping.QuantizeMode.MATERIALIZE,', '              algorithm_name,\n              _OpName.FULLY_CONNECTED,\n              qtyping.QuantizeMode.MATERIALIZE,',
         lambda x: x.site['fn'] in DISPATCH_FNS)]:
        src = core.read_source(rel)
        if a_ not in src: rep.canary(name, False, 'mutation site not found (stale canary)'); continue
        try:
            C2 = CC.Census({rel: src.replace(a_, b_, 1)})
            for s in C2.sites: s['end'] = getattr(s['node'], 'end_lineno', s['line'])
            obs2, _, _ = decide_sites(C2, F, {}, z3_tables); o = [x for x in obs2 if pick(x)]
            rep.canary(name, bool(o) and all(x.status != core.PROVED for x in o), str([(x.id.split('/', 1)[1], x.status) for x in o]))
        except Exception as e: rep.canary(name, False, f'crashed: {type(e).__name__}: {e}')

# ================================================================================================ replay
def replay(payload):
    inp = payload.get('inputs') or {}; print('replaying', payload.get('obligation'), json.dumps(inp, default=str)[:400])
    if inp.get('level') == 'api':
        from replay import c08_models as M
        fails, n = M.run_many([inp['recipe']], [M.norm(inp['spec'])], inp.get('n_samples', 1), inp.get('seed', 0))      # in a child process: LiteRT may abort
        print(fails or 'ok')
        return 1 if fails else 0
    if inp.get('level') == 'sequence':
        from replay import c08_models as M
        second, fresh = M.run_sequence(inp['first'], inp['recipe'], M.norm(inp['spec']), inp.get('n_samples', 1), inp.get('seed', 0)); print('second run:', second, 'fresh Quantizer:', fresh)
        return 1 if fresh['status'] == 'ok' and second['status'] != 'ok' else 0
    if inp.get('level') == 'function':
        from replay import c08_native as NV
        F = NV.facts(sample=True, want_lines=False)
        if 'crash' in F: print(F['crash']); return 0
        rid, k = inp.get('recipe'), inp.get('op_key')
        if 'get_quantization_configs' in inp.get('call', ''):
            v = F['resolution'].get(rid, {}).get(k, {}).get(inp.get('scope', ''), {}); print(v); return 1 if 'error' in v else 0
        if 'load_quantization_recipe' in inp.get('call', ''):
            v = F['recipes'].get(rid, {}); print(v); return 0 if v.get('ok') else 1
        if 'lookup' in inp.get('call', ''):
            v = F['dispatch'].get(rid, {}).get(k, {}); print(v); return 1 if any(isinstance(x, dict) for x in v.values()) else 0
        if 'get_tensor_transformations' in inp.get('call', ''):
            cid = json.dumps(inp['op_config'], sort_keys=True, default=str); v = F['transformations'].get(cid, {}).get(f'{int(inp["is_inbounding"])}{int(inp["is_constant"])}'); print(v); return 1 if isinstance(v, dict) else 0
        if 'one-operator' in inp.get('call', ''):
            ms = [m for m in F['mini'] if m['rid'] == rid and m['op'] == k and m['variant'] == inp.get('variant')]; print([{kk: m.get(kk) for kk in ('ok', 'exc', 'msg', 'site')} for m in ms]); return 1 if any(not m.get('ok') and not m.get('skipped') for m in ms) else 0
    print('no native replay recorded'); return 0
