"""C16 — large-model (external buffer) serialization equals the in-place form.

ModelModifier._serialize_large_model and _process_constant_map are verified with pyvc (bytes as int lists, while loops by invariant):
every data-bearing buffer gets a 16-byte aligned offset, size = data length, regions in bounds, increasing and disjoint, each region
holds exactly the constant, buffers without data untouched — for any number of buffers and any data lengths, under the ASSUMED
contract of the external flatbuffer serializer (its length does not depend on the values of non-zero offset/size fields; the call-site
obligations check that the fields are indeed non-zero at both calls, hence the precondition: constants non-empty).
The path selection in modify_model is an AST obligation; the interpreter-level clause is a bounded stand-in through the hook."""
import ast, os
import numpy as np, z3
from vlib import core, pyvc
from contracts import serialize
LEVEL = 'proof'
MM = 'model_modifier.py'

def lemmas(rep):
    """induction lemmas about L (used as hypotheses by the sidecar): aligned, above SER, monotone with room for the data"""
    L = z3.Function('L', z3.IntSort(), z3.IntSort()); j, j2, SER = z3.Ints('j j2 SER'); cl = z3.Function('CL', z3.IntSort(), z3.IntSort()); has = z3.Function('has_data', z3.IntSort(), z3.BoolSort())
    pad = serialize.pad16; step = lambda k: L(k + 1) == z3.If(has(k), pad(L(k) + cl(k)), L(k)); room = lambda k: z3.If(has(k), cl(k), 0)
    goals = [('L-aligned.base', [L(0) == pad(SER), SER > 0], z3.And(L(0) % 16 == 0, L(0) >= SER)),
             ('L-aligned.step', [step(j), z3.Implies(has(j), cl(j) > 0), L(j) % 16 == 0, L(j) >= SER], z3.And(L(j + 1) % 16 == 0, L(j + 1) >= SER)),
             ('L-monotone.base', [step(j), z3.Implies(has(j), cl(j) > 0)], L(j) + room(j) <= L(j + 1)),
             ('L-monotone.step', [j < j2, L(j) + room(j) <= L(j2), step(j2), z3.Implies(has(j2), cl(j2) > 0)], L(j) + room(j) <= L(j2 + 1))]
    for name, hyps, goal in goals:
        s = z3.Solver(); s.set('timeout', 20000); s.add(*hyps); s.add(z3.Not(goal)); r = s.check()
        rep.add(core.Ob(f'C16/spec-lemma/{name}', None, 'z3-lia(induction step)', core.PROVED if r == z3.unsat else (core.REFUTED if r == z3.sat else core.UNKNOWN), 0.0, clause=str(goal)))

def path_obligations(rep):
    fn = rep.fn(core.Fn(MM, 'ModelModifier.modify_model')); U = ast.unparse; node = fn.node
    calls = [U(n) for n in ast.walk(node) if isinstance(n, ast.Call)]
    ifs = [n for n in ast.walk(node) if isinstance(n, ast.If) and 'constant_buffer_size' in U(n.test)]
    ok_sel = len(ifs) == 1 and U(ifs[0].test) == 'constant_buffer_size > large_model_threshold' and U(ifs[0].body[0]) == 'return self._serialize_large_model(quantized_model)' \
             and U(ifs[0].orelse[0]) == 'return self._serialize_small_model(quantized_model)'
    assigns = {U(t): U(n.value) for n in ast.walk(node) if isinstance(n, ast.Assign) for t in n.targets}
    ok_thr = assigns.get('large_model_threshold', '').startswith('2 ** 31 - 2 ** 20') or '2 ** 31 - 2 ** 20' in [U(n.value) for n in ast.walk(node) if isinstance(n, ast.Assign) and U(n.targets[0]) == 'large_model_threshold']
    ok_map = calls.count('self._process_constant_map(quantized_model)') == 1 and assigns.get('constant_buffer_size') == 'self._process_constant_map(quantized_model)'
    init = rep.fn(core.Fn(MM, 'ModelModifier.__init__')); ok_init = any(U(n) == 'self._constant_map = []' for n in ast.walk(init.node) if isinstance(n, ast.Assign))
    out = []
    for c, ok in (('large-path-iff-constants-exceed-the-threshold-same-model-object', ok_sel), ('threshold-is-2**31-2**20-unless-the-verification-hook-overrides-it', ok_thr),
                  ('constant-map-built-once-from-the-transformed-model-before-serialising', ok_map), ('constant-map-starts-empty-per-ModelModifier', ok_init)):
        out.append(core.Ob(f'C16/{fn.name}/path.{c}', fn, 'ast-dataflow', core.PROVED if ok else core.REFUTED, 0.0, clause=c))
    return out

# ---------------------------------------------------------------------------------------------- native: both paths through the hook
def native_compare(model='single_fc_bias.tflite', recipe='default_af32w8float_recipe.json'):
    import absl.logging; absl.logging.set_verbosity('error')
    from ai_edge_quantizer import quantizer
    from ai_edge_quantizer.utils import tfl_interpreter_utils as tiu
    from tensorflow.lite.tools import flatbuffer_utils as fu
    path = generated_model(model) if model.startswith('gen:') else os.path.join(core.PKG, 'tests/models', model); rec = os.path.join(core.PKG, 'recipes', recipe)
    def q(thr):
        if thr is None: os.environ.pop('AI_EDGE_QUANTIZER_VERIF_LARGE_MODEL_THRESHOLD', None)
        else: os.environ['AI_EDGE_QUANTIZER_VERIF_LARGE_MODEL_THRESHOLD'] = str(thr)
        qt = quantizer.Quantizer(bytearray(path) if isinstance(path, bytes) else path, rec); res = None
        if qt.need_calibration:
            itp = tiu.create_tfl_interpreter(path); det = itp.get_signature_runner().get_input_details()
            res = qt.calibrate([{n: np.ones(d['shape'], dtype=d['dtype']) * 0.5 for n, d in det.items()}])
        return bytes(qt.quantize(res).quantized_model)
    os.environ['AI_EDGE_QUANTIZER_VERIF'] = '1'
    small = q(None); large = q(-1); os.environ.pop('AI_EDGE_QUANTIZER_VERIF_LARGE_MODEL_THRESHOLD', None)
    bad = []
    # raw object API (read_model_from_bytearray would already resolve offset/size into data)
    ms, ml = fu.convert_bytearray_to_object(bytearray(small)), fu.convert_bytearray_to_object(bytearray(large))
    if len(ms.buffers) != len(ml.buffers): bad.append('buffer count differs')
    regions = []
    for i, (bs, bl) in enumerate(zip(ms.buffers, ml.buffers)):
        ds = None if bs.data is None else bytes(np.asarray(bs.data).tobytes())
        if ds is None:
            if bl.data is not None or (bl.offset or 0) > 1 or (bl.size or 0) > 1: bad.append(f'buffer {i}: no data in the ordinary form but data/offset/size set in the large form')
            continue
        off, size = int(bl.offset), int(bl.size)
        if off % 16: bad.append(f'buffer {i}: offset {off} not 16-byte aligned')
        if size != len(ds): bad.append(f'buffer {i}: size {size} != {len(ds)}')
        if off + size > len(large): bad.append(f'buffer {i}: region out of bounds')
        elif large[off:off + size] != ds: bad.append(f'buffer {i}: region does not hold the bytes the ordinary path embeds')
        regions.append((off, off + size))
    regions.sort()
    if any(a[1] > b[0] for a, b in zip(regions, regions[1:])): bad.append('regions overlap')
    # all other fields equal: compare tensors / operators after dropping the buffer payload fields
    def skel(m): return [[(t.name, int(t.type), tuple(t.shape), int(t.buffer)) for t in sg.tensors] + [(int(o.opcodeIndex), tuple(o.inputs), tuple(o.outputs)) for o in sg.operators] for sg in m.subgraphs]
    if skel(ms) != skel(ml): bad.append('other fields differ between the two forms')
    try:
        outs = []
        for b in (small, large):
            itp = tiu.create_tfl_interpreter(b)           # allocates the tensors
            if not itp.get_signature_list():               # models without a signature: loading + allocation is what can be compared
                outs.append({}); continue
            res = {}
            for key in itp.get_signature_list():           # every signature
                det = itp.get_signature_runner(key).get_input_details()
                for k_, v_ in tiu.invoke_interpreter_signature(itp, {n: (np.ones(d['shape']) * 0.25).astype(d['dtype']) for n, d in det.items()}, key).items(): res[f'{key}/{k_}'] = v_
            outs.append(res)
        for k in outs[0]:
            if not np.array_equal(outs[0][k], outs[1][k]): bad.append(f'interpreter output {k} differs between the two forms')
    except Exception as e: bad.append(f'interpreter failed on one of the forms: {type(e).__name__}: {str(e)[:120]}')
    return dict(confirmed=bool(bad), inputs=dict(model=model, recipe=recipe, threshold=-1), violated=bad, observed=dict(small_len=len(small), large_len=len(large), data_buffers=len(regions)))

def generated_model(name):
    """in-memory float models whose constants vary in what the offset computation depends on: 'gen:dup' = two FULLY_CONNECTED layers with byte-identical
    weights and byte-identical all-zero biases (distinct buffers, equal contents); 'gen:odd' = constants of 1-, 3-, 5- and 17-element length (sizes not multiples of 16)"""
    from ai_edge_litert import schema_py_generated as S
    from tensorflow.lite.tools import flatbuffer_utils as fu
    m = S.ModelT(); m.version = 3; m.description = 'c16'; m.buffers = [S.BufferT()]; m.operatorCodes = []; sg = S.SubGraphT(); sg.name = b'main'; sg.tensors = []; sg.operators = []; m.subgraphs = [sg]
    def tensor(nm, shape, data=None):
        b = S.BufferT()
        if data is not None: b.data = np.frombuffer(np.asarray(data, dtype=np.float32).tobytes(), dtype=np.uint8)
        m.buffers.append(b); t = S.TensorT(); t.name = nm.encode(); t.shape = list(shape); t.buffer = len(m.buffers) - 1; t.type = 0; sg.tensors.append(t); return len(sg.tensors) - 1
    def opcode(code):
        for i, oc in enumerate(m.operatorCodes):
            if oc.builtinCode == code: return i
        oc = S.OperatorCodeT(); oc.builtinCode = code; oc.deprecatedBuiltinCode = min(code, 127); oc.version = 1; m.operatorCodes.append(oc); return len(m.operatorCodes) - 1
    def fc(x, w, b, y):
        o = S.OperatorT(); o.opcodeIndex = opcode(S.BuiltinOperator.FULLY_CONNECTED); o.inputs = [x, w, b]; o.outputs = [y]
        o.builtinOptionsType = S.BuiltinOptions.FullyConnectedOptions; o.builtinOptions = S.FullyConnectedOptionsT(); sg.operators.append(o)
    if name == 'gen:dup':
        W = (np.arange(16, dtype=np.float32).reshape(4, 4) - 7.5) / 9.0
        x = tensor('x', [1, 4]); h = tensor('h', [1, 4]); y = tensor('y', [1, 4])
        fc(x, tensor('w0', [4, 4], W), tensor('b0', [4], np.zeros(4)), h); fc(h, tensor('w1', [4, 4], W), tensor('b1', [4], np.zeros(4)), y)
    elif name == 'gen:odd':
        x = tensor('x', [1, 1]); cur = x
        for k, n in enumerate((3, 5, 17, 1)):
            prev_n = sg.tensors[cur].shape[1]; nxt = tensor(f't{k}', [1, n])
            fc(cur, tensor(f'w{k}', [n, prev_n], (np.arange(n * prev_n, dtype=np.float32).reshape(n, prev_n) - k) / 7.0), tensor(f'b{k}', [n], np.arange(n, dtype=np.float32) / 3.0), nxt); cur = nxt
        y = cur
    elif name.startswith('gen:empty'):
        # a zero-length constant (present, empty data vector) in front of the other constants; '+k' lengthens a tensor name to move the flatbuffer's length mod 16
        W = (np.arange(16, dtype=np.float32).reshape(4, 4) - 7.5) / 9.0; k = int(name.split('+')[1]) if '+' in name else 0
        x = tensor('x' + '_' * k, [1, 4]); e = tensor('empty_const', [0], np.zeros(0)); h = tensor('h', [1, 4]); y = tensor('y', [1, 4])
        fc(x, tensor('w0', [4, 4], W), tensor('b0', [4], np.ones(4)), h); fc(h, tensor('w1', [4, 4], W + 1), tensor('b1', [4], np.zeros(4)), y)
    else: raise ValueError(name)
    sg.inputs = [x]; sg.outputs = [y]
    sd = S.SignatureDefT(); sd.signatureKey = b'serving_default'; sd.subgraphIndex = 0; sd.inputs = []; sd.outputs = []
    for lst, nm, t in ((sd.inputs, b'x', x), (sd.outputs, b'y', y)):
        tm = S.TensorMapT(); tm.name = nm; tm.tensorIndex = t; lst.append(tm)
    m.signatureDefs = [sd]
    return bytes(fu.convert_object_to_bytearray(m))

CASES = [('gen:dup', 'default_af32w8float_recipe.json'), ('gen:odd', 'default_a8w8_recipe.json'), ('gen:empty+4', 'default_af32w8float_recipe.json'), ('single_fc_bias.tflite', 'default_af32w8float_recipe.json'), ('conv_fc_mnist.tflite', 'default_a8w8_recipe.json'), ('conv_fc_mnist.tflite', 'default_af32w4float_recipe.json'),
         ('single_fc_bias.tflite', 'dynamic_wi8_afp32_recipe.json'), ('embedding_lookup.tflite', 'default_af32w8float_recipe.json'), ('two_signatures.tflite', 'default_af32w8float_recipe.json')]
def search(label=None):
    for m, r in CASES:
        try: rp = native_compare(m, r)
        except Exception as e: continue
        if rp['confirmed']: return rp
    return None

CANARIES = [('_serialize_large_model: pass 2 pads to 8 instead of 16', "      model_bytearray += buffer_data\n      while len(model_bytearray) % 16:", "      model_bytearray += buffer_data\n      while len(model_bytearray) % 8:"),
            ('_serialize_large_model: size includes a padding byte', "      buffer.size = len(buffer_data)", "      buffer.size = len(buffer_data) + 1"),
            ('_serialize_large_model: offset taken after appending the data', "      buffer.offset = len(dummy_bytearray)\n      buffer.size = len(buffer_data)\n      dummy_bytearray += buffer_data", "      buffer.size = len(buffer_data)\n      dummy_bytearray += buffer_data\n      buffer.offset = len(dummy_bytearray)"),
            ('_serialize_large_model: placeholder size 0 (field dropped by the serializer)', "        buffer.size = 1", "        buffer.size = 0"),
            ('_serialize_large_model: zero-length constants externalised again (the repaired defect)', "      if buffer.data is not None and len(buffer.data) > 0:", "      if buffer.data is not None:")]

def run(rep):
    pyvc.verify(rep, 'C16', core.Fn(MM, 'ModelModifier._serialize_large_model'), serialize.SerializeLarge(), fallback=search)
    pyvc.verify(rep, 'C16', core.Fn(MM, 'ModelModifier._process_constant_map'), serialize.ProcessConstantMap())
    lemmas(rep); rep.extend(path_obligations(rep))
    # bounded stand-in through the public API with the threshold hook
    cases = fails = 0; first = None
    for m, r in (CASES + [(f'gen:empty+{k}', 'default_af32w8float_recipe.json') for k in (0, 8, 12)] if rep.tier == 'thorough' else CASES[:6]):
        try: rp = native_compare(m, r); cases += 1
        except Exception as e: rep.notes.append(f'stand-in case {m}/{r} could not run: {type(e).__name__}: {str(e)[:100]}'); continue
        if rp['confirmed']: fails += 1; first = first or rp
    rep.add_bounded('Quantizer.quantize through both serialization paths (AI_EDGE_QUANTIZER_VERIF_LARGE_MODEL_THRESHOLD hook)', 'fixture models x shipped recipes; offsets aligned / in bounds / disjoint / bytes equal to the ordinary form, other fields equal, both load in LiteRT and give identical outputs', cases, fails)
    if first:
        ob = core.Ob('C16/bounded.both-paths/large-form-describes-the-same-model', None, 'bounded-native', core.REFUTED, 0.0, detail=str(first['violated']), clause='bytes of the large-model path describe the same model as the ordinary path'); ob.replay = first; rep.add(ob)
    src = core.read_source(MM)
    for name, a, b in CANARIES:
        if a not in src: rep.canary(name, False, 'mutation site not found (stale canary)'); continue
        try:
            E = pyvc.run_function(core.Fn(MM, 'ModelModifier._serialize_large_model', src_override=src.replace(a, b)), serialize.SerializeLarge())
            bad = [ob.label for ob, st, dt, det, mv in pyvc.decide_parallel(E, E.spec, timeout=20000, canary=True) if st != 'proved']; rep.canary(name, bool(bad), str(bad[:3]))
        except pyvc.Unsupported as e: rep.canary(name, True, str(e))
    rep.assume('ASSUMED CONTRACT of the dependency: len(flatbuffer_utils.convert_object_to_bytearray(m)) is independent of the values of non-zero buffer offset/size fields, and parsing ignores bytes after the flatbuffer root; '
               'its applicability (fields non-zero at both calls) is a discharged call-site obligation')
    rep.assume('the constant map is the one _process_constant_map built for this model (entry None iff no data; len(buffer.data) > 0 iff the entry is non-empty: data vectors are 1-D byte arrays); the serialized model is non-empty')
    rep.assume('termination of the padding loops is not verified (partial correctness); interpreter load / identical outputs only through the bounded stand-in')
    rep.trust('bytes / bytearray / numpy byte arrays modelled as int lists with in-place extension; ndarray.tobytes() returns the bytes of the array')

def replay(payload):
    inp = payload.get('inputs', {})
    rp = native_compare(inp.get('model', 'single_fc_bias.tflite'), inp.get('recipe', 'default_af32w8float_recipe.json')) if 'model' in inp else search()
    print(rp); return 1 if rp and rp.get('confirmed') else 0
