"""C18 — validate() reports the true per-tensor error, once per tensor.

Functions under contract and front ends
  (1) utils/validation_utils.py: mean_squared_difference, median_diff_ratio, _preprocess_same_size_arrays
        CPython executes the REAL functions on symbolic arrays of SYMBOLIC size (contracts/c18_symnp.py: path explorer over size
        comparisons, element classes finite/NaN/+inf/-inf, logged reductions + trusted reduction axioms) -> z3 / cvc5 (QF_NRA);
      get_validation_func: pyvc.
  (2) model_validator.py: ComparisonResult.__init__, ComparisonResult.add_new_signature_results, _setup_validation_interpreter,
      compare_model;  quantizer.py: Quantizer.validate -- pyvc with the local engine extension contracts/c18_validator.EngineX
      (`{}`, dict comprehension, dict.pop, `x: T = v`); unbounded in the number of names / samples / signatures;
      utils/tfl_interpreter_utils.get_tensor_name_to_details_map (the name-keyed map that pairs the tensors): pyvc.
  (3) utils/tfl_interpreter_utils.py: get_tensor_data, is_tensor_quantized;  qtyping.py: UniformQuantParams.from_tfl_tensor_details
        real call chain (incl. uniform_dequantize) executed on symbolic tensor contents (vlib/symnp) + the finite dtype table
        (exhaustive-native over numpy's scalar types).  uniform_dequantize / fix_quantization_params_rank themselves: props/C17.py.
How the clauses of the property compose:  validate -> compare_model(float, quantized, data, name, get_validation_func(name)) [pyvc] ->
per signature ONE add_new_signature_results(metric, AG, key) with AG[k] = np.mean over samples of compare_fn(READ target, READ reference) for
exactly the names in both detail maps (non-object dtype) [pyvc, call-site obligations] -> the four groups partition AG's names and keep
float(AG[k]) [pyvc] ; READ = get_tensor_data = (q - zp) * scale on quantized tensors [symnp] ; compare_fn = the documented metric, >= 0,
0 on equal arguments, MSE symmetric [symnp + reduction axioms].  "Comparing a model with itself reports 0" = identical reads (assumption:
identical models give identical reads for the tensors OF THE MODEL) + metric(x, x) == 0 + np.mean of zeros (axiom), and is additionally
exercised through the public API by the bounded stand-in (replay/c18_native.py), which recomputes every reported number from its own
interpreter runs.  Bounded stand-ins are never counted as proved obligations."""
import importlib, json, os, time
import z3
from vlib import core, pyvc, symnp
from contracts import c18_symnp as X, c18_metrics as MT, c18_dequant as DQ, c18_validator as CV
LEVEL = 'proof'
MV, VU, UT, QT, QZ = 'model_validator.py', 'utils/validation_utils.py', 'utils/tfl_interpreter_utils.py', 'qtyping.py', 'quantizer.py'

def N():
    from replay import c18_native
    return c18_native

# ---------------------------------------------------------------------------------------------- (1) metrics
def metrics(rep):
    mod = X.load(VU); fns = {n: rep.fn(core.Fn(VU, n)) for n in MT.FNS}
    goals = MT.generate(mod); res = MT.discharge(goals); native = None
    for g, (st, dt, be, model) in zip(goals, res):
        ob = core.Ob(f'C18/utils.validation_utils.{g.fn}/{g.id}', fns[g.fn], be, st, dt, detail=model if model is not None else g.observed, clause=g.clause or str(g.goal)[:300])
        if st == 'refuted':
            native = native or X.load(VU, symbolic=False)
            try: ob.replay = MT.native_law(native, g.law, g.cfg, model if isinstance(model, dict) else {})
            except Exception as e: ob.replay = dict(confirmed=False, inputs=dict(model=model), observed=f'replay crashed: {e!r}')
        rep.add(ob)
    src = core.read_source(VU)
    for name, a, b, tags, subs in MT.CANARIES:
        if a not in src: rep.canary(name, False, 'mutation site not found (stale canary)'); continue
        try: gl = MT.generate(X.load(VU, src.replace(a, b, 1)))
        except symnp.Undecided as e: rep.canary(name, True, f'mutant rejected by the front end: {e}'); continue
        sel = [g for g in gl if any(g.id.startswith(t) for t in tags) and any(s in g.id for s in subs)]; rs = MT.discharge(sel)
        bad = [(g.id, r[0]) for g, r in zip(sel, rs) if r[0] != 'proved']; rep.canary('validation_utils: ' + name, bool(bad), str(bad[:3]))
    # covers: each outcome class of the explored paths is satisfiable
    n1, n2 = z3.Ints('n1 n2')
    for nme, f in (('size-mismatch', n1 != n2), ('empty', z3.And(n1 == n2, n1 == 0)), ('non-empty', z3.And(n1 == n2, n1 > 0))):
        s = z3.Solver(); s.add(n1 >= 0, n2 >= 0, f); rep.cover('metrics.' + nme, s.check() == z3.sat)
    for t in X.AXIOMS: rep.trust(t)
    rep.assume('float32/float64 arithmetic of the metric functions treated as real arithmetic (no rounding, no overflow of (a-b)^2 to inf); NaN/inf INPUTS are modelled (element classes) and shown to be replaced before any arithmetic')

# ---------------------------------------------------------------------------------------------- (3) dequantisation path
def dequant(rep):
    qt, ut = DQ.load()
    fns = {'get_tensor_data': rep.fn(core.Fn(UT, 'get_tensor_data')), 'is_tensor_quantized': rep.fn(core.Fn(UT, 'is_tensor_quantized')), DQ.FROM: rep.fn(core.Fn(QT, DQ.FROM))}
    mods = {'get_tensor_data': 'utils.tfl_interpreter_utils', 'is_tensor_quantized': 'utils.tfl_interpreter_utils', DQ.FROM: 'qtyping'}
    goals = DQ.generate(qt, ut); res = MT.discharge(goals)
    for g, (st, dt, be, model) in zip(goals, res):
        be = 'exhaustive-native' if (g.ok is not None and g.id.startswith(('num-bits-table', 'is_tensor_quantized'))) else be
        oid = f'C18/{mods[g.fn]}.{g.fn}/{g.id}' if g.fn else f'C18/spec-lemma/{g.id}'
        ob = core.Ob(oid, fns.get(g.fn), be, st, dt, detail=model if model is not None else g.observed, clause=g.clause or str(g.goal)[:300])
        if st == 'refuted': ob.replay = dict(confirmed=g.ok is not None, inputs=g.inputs or dict(model=model), observed=g.observed or 'solver counter-model (symbolic tensor element)')
        rep.add(ob)
    for name, rel, a, b, subs in DQ.CANARIES:
        src = core.read_source(rel)
        if a not in src: rep.canary(name, False, 'mutation site not found (stale canary)'); continue
        try: gl = DQ.generate(*DQ.load({rel: src.replace(a, b, 1)}))
        except symnp.Undecided as e: rep.canary(name, True, f'mutant rejected by the front end: {e}'); continue
        sel = [g for g in gl if any(s in g.id for s in subs)][:12]; rs = MT.discharge(sel)
        bad = [(g.id, r[0]) for g, r in zip(sel, rs) if r[0] != 'proved']; rep.canary(name, bool(bad), str(bad[:3]))
    # the cited contracts of props/C17.py are locked as proved for the CURRENT text of the cited functions
    lock = core.load_json(core.LOCK_PATH, {}).get('C17', {})
    for qual, pat in (('uniform_dequantize', 'result-is-(q-zp)*scale'), ('fix_quantization_params_rank', 'fixup-shape')):
        f = core.Fn('algorithms/uniform_quantize/uniform_quantize_tensor.py', qual)
        cited = [k for k, v in lock.items() if pat in k and v.get('fn_sha') == f.sha]
        rep.add(core.Ob(f'C18/cites/C17.{qual}.{pat}', rep.fn(f), 'lock-lookup', core.PROVED if cited else core.UNKNOWN, 0.0, detail=f'{len(cited)} locked C17 obligations for the current source of {qual}',
                        clause=f'props/C17.py proves "{pat}" for the current text of {qual}'))
    rep.trust("Python's builtin sum(xs) = left fold of + starting from int 0 (used for `symmetric`); numpy broadcasting of the rank-fixed scale / zero point against the tensor (C17 locality obligations give the shapes)")
    rep.assume('zero points reported by the interpreter lie within +-2^16 and a tensor has fewer than 2^14 quantization channels (no int32 wrap in sum(abs(zero_points)))')
    rep.assume('rank-0 quantized tensors (the .item() path of fix_quantization_params_rank) are outside the symbolic front end (bounded stand-in of C17 only)')

# ---------------------------------------------------------------------------------------------- (2) bookkeeping
def replay_add(mv, label=None):
    n = N(); m = n.load_validator()
    bad = n.check_add(m, set(mv.get('keys', [])), mv.get('inputs', []), mv.get('outputs', []), mv.get('constants', []), bool(mv.get('signature_present')))
    return dict(confirmed=bad is not None, inputs=mv, observed=bad or 'the real function behaves as the contract prescribes on this input')
def search_add(label=None):
    n = N(); return n.search_add(n.load_validator())
def search_compare(label=None):
    n = N(); out = n.standin(['single_fc.tflite', 'conv_fc_mnist.tflite'], ['default_a8w8_recipe.json'], samples=(2,))
    if out['failures']: f = out['failures'][0]; return dict(confirmed=True, inputs=f['inputs'], observed=f['observed'], cases=out['cases'])
    return dict(confirmed=False, cases=out['cases'])

PYVC = [(VU, 'get_validation_func', lambda fn: CV.GetValidationFunc(), None, None, ()),
        (MV, 'ComparisonResult.__init__', lambda fn: CV.ComparisonResultInit(), None, None, ()),
        (MV, 'ComparisonResult.add_new_signature_results', lambda fn: CV.AddNewSignatureResults(), replay_add, search_add, ('return:a name of the argument is in EXACTLY one group', 'loop2-preserve:pops-so-far-succeeded')),
        (MV, '_setup_validation_interpreter', lambda fn: CV.SetupValidationInterpreter(), None, None, ()),
        (MV, 'compare_model', lambda fn: CV.CompareModel(fn), None, search_compare, ('callsite:add_new_signature_results.value', 'preserve:list-contents')),
        (QZ, 'Quantizer.validate', lambda fn: CV.QuantizerValidate(), None, None, ()),
        (UT, 'get_tensor_name_to_details_map', lambda fn: CV.TensorNameToDetailsMap(), None, None, ('return:map[K] is the last detail called K',))]

CANARIES = [  # (name, file, qualname, spec factory, old, new, label substrings of the obligations expected to break)
    ('add_new_signature_results: inputs not popped (a name reported in two groups)', MV, 'ComparisonResult.add_new_signature_results', lambda fn: CV.AddNewSignatureResults(),
     '      input_tensor_results[name] = result.pop(name)', '      input_tensor_results[name] = result[name]', ['loop0-preserve:rest-holds', 'no-KeyError']),
    ('add_new_signature_results: outputs filed under inputs', MV, 'ComparisonResult.add_new_signature_results', lambda fn: CV.AddNewSignatureResults(),
     '      output_tensor_results[name] = result.pop(name)', '      input_tensor_results[name] = result.pop(name)', ['return:input_tensors', 'return:output_tensors', 'loop1-preserve:group']),
    ('add_new_signature_results: intermediates = the unpopped copy', MV, 'ComparisonResult.add_new_signature_results', lambda fn: CV.AddNewSignatureResults(),
     '        intermediate_tensors=result,', '        intermediate_tensors={key: float(value) for key, value in comparison_result.items()},', ['EXACTLY one group', 'return:intermediate_tensors']),
    ('add_new_signature_results: duplicate signature overwrites', MV, 'ComparisonResult.add_new_signature_results', lambda fn: CV.AddNewSignatureResults(),
     '    if signature_key in self._comparison_results:', '    if False:', ['return:entry-added', 'return:signature-key-appended']),
    ('compare_model: sum instead of mean', MV, 'compare_model', lambda fn: CV.CompareModel(fn), 'np.mean(comparison_results[tensor_name])', 'np.sum(comparison_results[tensor_name])', ['preserve:aggregated-only-names']),
    ('compare_model: target read through the reference detail (tensors not paired by name)', MV, 'compare_model', lambda fn: CV.CompareModel(fn),
     '              targ_tensor_name_to_details[tensor_name],\n', '              detail,\n', ['preserve:list-contents']),
    ('compare_model: compare_fn(reference, target) instead of (target, reference)', MV, 'compare_model', lambda fn: CV.CompareModel(fn),
     'compare_fn(target_data, reference_data)', 'compare_fn(reference_data, target_data)', ['preserve:list-contents']),
    ('compare_model: per-name list reset on every sample', MV, 'compare_model', lambda fn: CV.CompareModel(fn), '          if tensor_name not in comparison_results:\n', '          if True:\n', ['preserve:list-lengths']),
    ('compare_model: object-dtype filter dropped', MV, 'compare_model', lambda fn: CV.CompareModel(fn), "        if detail['dtype'] == np.object_:\n          continue\n", '', ['preserve:names = eligible']),
    ('Quantizer.validate: quantized model passed as the reference', QZ, 'Quantizer.validate', lambda fn: CV.QuantizerValidate(),
     '        self.float_model,\n        self._result.quantized_model,\n        test_data,', '        self._result.quantized_model,\n        self.float_model,\n        test_data,', ['callsite:compare_model(reference']),
    ('get_tensor_name_to_details_map: unnamed temporaries not skipped', UT, 'get_tensor_name_to_details_map', lambda fn: CV.TensorNameToDetailsMap(),
     '    if not tensor_detail["name"]:\n      continue\n    tensor_name_to_detail[tensor_detail["name"]] = tensor_detail', '    tensor_name_to_detail[tensor_detail["name"]] = tensor_detail', ['preserve:K-present-iff-seen']),
    ('get_validation_func: names crossed', VU, 'get_validation_func', lambda fn: CV.GetValidationFunc(), '    return mean_squared_difference\n', '    return median_diff_ratio\n', ["'mse' selects"]),
]

def bookkeeping(rep):
    for rel, qual, mk, rp, fb, cov in PYVC:
        fn = core.Fn(rel, qual); CV.verify(rep, 'C18', fn, mk(fn), replay=rp, fallback=fb, timeout=60000, covers=cov)
    # canaries: every selected obligation of every mutant in ONE pool
    tasks, owner = [], []; verdict = {}
    for name, rel, qual, mk, a, b, only in CANARIES:
        src = core.read_source(rel)
        if a not in src: rep.canary(name, False, 'mutation site not found (stale canary)'); continue
        try:
            fn = core.Fn(rel, qual, src_override=src.replace(a, b, 1)); spec = mk(fn); E = CV.run_function(fn, spec)
        except pyvc.Unsupported as e: rep.canary(name, True, f'mutant leaves the engine subset: {e}'); continue
        idx = [i for i, ob in enumerate(E.obs) if any(s in ob.label for s in only)][:6]; verdict[name] = []
        for i in idx: tasks.append((E, spec, i, 15000, 2, ('typed', 'untyped'))); owner.append((name, E.obs[i].label))
    for (name, label), (st, dt, det, mv) in zip(owner, CV.decide_tasks(tasks)): verdict[name].append((label, st))
    for name, v in verdict.items():
        bad = [x for x in v if x[1] != 'proved']; rep.canary(name, bool(bad), str(bad[:3]) if bad else f'no selected obligation failed: {v}')
    rep.trust('tensor names modelled as integers (an injective encoding of strings; the functions use names only as dict keys); dict = insertion-ordered map; dict.pop(k) removes k and raises KeyError when absent (contracts/c18_validator.EngineX)')
    rep.trust('float(v) is a pure function of v; utils.get_tensor_data, compare_fn and np.mean(list) are pure functions of their arguments (uninterpreted READ / CMP / MEANL); '
              'utils.get_input_tensor_names / get_output_tensor_names / get_constant_tensor_names return arbitrary lists')
    rep.assume("the name->details map of a model's signature (tensor names, dtype and quantization details of its main subgraph) does not depend on the test sample: _setup_validation_interpreter is modelled as "
               '(INTERP(model, sample, key, kernel), SGX(model, key), a fresh dict with the contents DETAILS(model, key))')
    rep.assume('identical models give identical reads for the tensors of the model (external LiteRT runtime); kernel-allocated temporaries are not tensors of the model')
    rep.assume('Quantizer.validate is called after quantize() (self._result is not None)')

# ---------------------------------------------------------------------------------------------- bounded stand-ins (never counted as proved)
MODELS = ['conv_fc_mnist.tflite', 'single_fc.tflite', 'two_signatures.tflite', 'weight_sharing_fcs.tflite', 'single_add.tflite', 'embedding_lookup.tflite', 'single_transpose_int32.tflite', 'bmm_constant_input.tflite', 'mnist_quantized.tflite', 'duplicated_tensor_names.tflite']
RECIPES = ['default_a8w8_recipe.json', 'dynamic_wi8_afp32_recipe.json', 'default_af32w4float_recipe.json', 'default_a16w8_recipe.json']
def standins(rep):
    n = N()
    r = n.search_add(n.load_validator())
    rep.add_bounded('ComparisonResult.add_new_signature_results (real method, interpreter utilities stubbed by given name lists) vs its contract',
                    'all key sets over 3 names x all name lists of length <= 2 for inputs / outputs / constants x signature already present or not', r['cases'], 1 if r['confirmed'] else 0)
    if r['confirmed']:
        ob = core.Ob('C18/bounded.add_new_signature_results/outcome-and-groups-as-specified', core.Fn(MV, 'ComparisonResult.add_new_signature_results'), 'bounded-native', core.REFUTED, 0.0, detail=r['observed'], clause='partition / KeyError / ValueError exactly as the contract prescribes'); ob.replay = r; rep.add(ob)
    models = MODELS
    out = n.standin(models, RECIPES, samples=(1, 3))
    rep.add_bounded('Quantizer / model_validator.compare_model through the public API',
                    f'{len(models)} fixture models x (itself + the models produced by the REAL quantizer under {len(RECIPES)} shipped recipes, where applicable) x both metrics x 1 and 3 random samples: '
                    'every reported value == metric recomputed from own interpreter runs + own dequantisation (rtol 1e-4), every name of both main subgraphs in exactly one group, groups as derived from the signature / flatbuffer, '
                    'self-comparison == 0 for every tensor of the flatbuffer main subgraph', out['cases'], len(out['failures']),
                    note=f"{len(out['raised'])} cases raise as the contracts allow (e.g. {out['raised'][0]['note'][:120] if out['raised'] else '-'}); {len(out['skipped'])} model/recipe pairs rejected by the quantizer itself")
    rep.extra['standin_raised'] = out['raised'][:8]; rep.extra['standin_skipped'] = out['skipped']
    if out['observations']:
        rep.extra['observation_kernel_temporaries'] = dict(
            what='compare_model also files kernel-allocated NAMED temporaries (not tensors of the flatbuffer; exposed by experimental_preserve_all_tensors) under intermediate_tensors; their contents are '
                 'uninitialised memory, so the reported value is run dependent and non-zero even when a model is compared with itself (not a violation of C18 as stated: they are not tensors of the model)',
            repro="compare_model(bmm_constant_input.tflite, same, create_random_normal_input_data(..., num_samples=1), 'mse', mean_squared_difference) -> intermediate_tensors['BatchMatMul_scratch_buffer'] = inf / huge; same for bmm.tflite",
            temporaries=out['temporaries'], seen=out['observations'][:4])
        rep.notes.append(f"observation (not a violation): kernel temporaries {out['temporaries']} are reported with run-dependent garbage values, also on self-comparison (see evidence: observation_kernel_temporaries)")
    for k, f in enumerate(out['failures'][:5]):
        ob = core.Ob(f'C18/bounded.public-api/{f["kind"]}#{k}', core.Fn(MV, 'compare_model'), 'bounded-native', core.REFUTED, 0.0, detail=f['observed'], clause='reported value / grouping equals the recomputation from own interpreter runs')
        ob.replay = dict(confirmed=True, inputs=f['inputs'], observed=f['observed']); rep.add(ob)

def run(rep):
    metrics(rep); dequant(rep); bookkeeping(rep); standins(rep)

def replay(payload):
    inp = payload.get('inputs', {}) or {}; oid = payload.get('obligation', '')
    print('replaying', oid, inp)
    if 'keys' in inp and 'constants' in inp: r = replay_add(inp)
    elif 'law' in inp and 'cfg' in inp:
        cfg = dict(inp['cfg'], dtypes=tuple(inp['cfg']['dtypes'])); r = MT.native_law(X.load(VU, symbolic=False), inp['law'], cfg, inp.get('model') or {})
    elif 'model' in inp and 'target' in inp:
        n = N(); out = n.standin([inp['model']], [] if inp['target'] == 'self' else [inp['target']], metrics=(inp['metric'],), samples=(inp['samples'],)); r = dict(confirmed=bool(out['failures']), observed=out['failures'][:1])
    else: r = search_add()
    print(r); return 1 if r.get('confirmed') else 0
