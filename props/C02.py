from vlib import core
from props import graphcommon as gc
LEVEL = 'proof'
PROP = 'C02'
"""C02 — quantization preserves the graph skeleton and the model I/O contract."""
def run(rep):
    gc.insert_obligations(rep, PROP); gc.performer_obligations(rep, PROP); gc.signature_obligations(rep, PROP); gc.tensorinfo_obligations(rep, PROP); gc.vertical_obligations(rep, PROP); gc.produce_obligations(rep, PROP); gc.compose_obligations(rep, PROP)
    gc.bounded_insert(rep); gc.e2e_standin(rep, PROP, sampled3=(300 if rep.tier == 'thorough' else 0))
    gc.canaries(rep); gc.performer_canaries(rep)
    rep.assume('the call of _remap_signature_outputs from transform_graph with the pre-transformation outputs, the deep copy in ModelModifier.modify_model (frame proved under C14) and the generator -> performer composition are covered by the bounded end-to-end stand-in only')
    rep.assume('op-replacement / blockwise mode (EMULATED_SUBCHANNEL) is excluded by the property')
    rep.trust('flatbuffer object-API classes are plain attribute bags; numpy int32 index arrays behave as Python int lists; serializer fidelity')
from props.C01 import replay
