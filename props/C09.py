"""C09 — calibration statistics are exact, order-faithful and resumable.

Functions under contract and front ends
  pyvc (AST symbolic execution, unbounded, z3 after typed instantiation)
    Calibrator._update_qsvs, Calibrator.load_model_qsvs                       contracts/c09_qsvs.py
    Calibrator._initialize_model_qsvs (constants: first selected operator wins, present names kept)   contracts/c09_init.py
    Calibrator.calibrate (whole function; every callee by contract), tfl_flatbuffer_utils.get_subgraph_input_output_operators
                                                                              contracts/c09_calibrate.py
  symnp / cpython-exec (CPython executes the real function on symbolic arrays)  contracts/c09_stats.py
    calibration_utils._update_moving_average, moving_average_update; naive_min_max_quantize.min_max_calibrate, init_qsvs
    (min_max_quantize_utils.init_tensor_min_max / _get_reduce_dims on symbolic content: proved by C04 `statistics` / `qdim`, cited)
  exhaustive-native: the real registration table (which calibration function every registered op gets)
  ast-dataflow: Quantizer.calibrate (fresh Calibrator per session, previous result only through load_model_qsvs, dataset handed over
    unmodified, default update function), Calibrator.get_model_qsvs, where self._model_qsvs is re-bound
  spec lemmas (no code): fold/resume  fold(fold(s, D1), D2) == fold(s, D1 ++ D2)  by induction spelled out (base + step goals);
    the repeated INPUT/OUTPUT pseudo-operators never change which names a sample reports.
Bounded stand-in (never counted as proved): Quantizer.calibrate on fixture models against our own interpreter runs (replay/c09_native.py)."""
import numpy as np
import ast, fractions, importlib, time
import z3
from vlib import core, pyvc, symnp
from contracts import c04_common as cc, c09_qsvs, c09_calibrate, c09_stats, c09_init
LEVEL = 'proof'
CAL, QZ, CU, FBU = 'calibrator.py', 'quantizer.py', 'utils/calibration_utils.py', 'utils/tfl_flatbuffer_utils.py'
FNS = {'calibration_utils.moving_average_update': (CU, 'moving_average_update'), 'calibration_utils._update_moving_average': (CU, '_update_moving_average'),
       'naive_min_max_quantize.min_max_calibrate': (cc.NMM, 'min_max_calibrate'), 'naive_min_max_quantize.init_qsvs': (cc.NMM, 'init_qsvs')}

# ---------------------------------------------------------------------------------------------- ast-dataflow obligations
def _body(fn): return [s for s in fn.node.body if not (isinstance(s, ast.Expr) and isinstance(s.value, ast.Constant))]
def ast_obligations(rep):
    U = ast.unparse; out = []
    def ob(fn, clause, ok, detail=''):
        out.append(core.Ob(f'C09/{fn.name}/dataflow.{clause}', fn, 'ast-dataflow', core.PROVED if ok else core.REFUTED, 0.0, detail=detail, clause=clause,
                           replay=None if ok else dict(confirmed=False, note='structural obligation on the source text', observed=detail)))
    fn = rep.fn(core.Fn(QZ, 'Quantizer.calibrate')); b = [U(s) for s in _body(fn)]
    ob(fn, 'one-fresh-Calibrator-per-session-on-the-float-model', 'calib = calibrator.Calibrator(self.float_model)' in b and sum('Calibrator(' in s for s in b) == 1, str(b))
    i_new = b.index('calib = calibrator.Calibrator(self.float_model)') if 'calib = calibrator.Calibrator(self.float_model)' in b else -1
    load = 'if previous_calibration_result is not None:\n    calib.load_model_qsvs(previous_calibration_result)'
    run = 'calib.calibrate(calibration_data, self._recipe_manager, signature_key)'
    ob(fn, 'previous-result-enters-only-through-load_model_qsvs-before-calibrating', load in b and run in b and i_new >= 0 and i_new < b.index(load) < b.index(run) and sum('previous_calibration_result' in s for s in b) == 1, str(b))
    ob(fn, 'dataset-handed-over-unmodified-with-the-default-update-function', run in b and sum('calibration_data' in s for s in b) == 1, str(b))
    ob(fn, 'returns-the-calibrator-state-after-the-session', bool(b) and b[-1] == 'return calib.get_model_qsvs()' and run in b and b.index(run) == len(b) - 2, str(b))
    fn = rep.fn(core.Fn(CAL, 'Calibrator.get_model_qsvs')); ob(fn, 'returns-self._model_qsvs', [U(s) for s in _body(fn)] == ['return self._model_qsvs'])
    fn = rep.fn(core.Fn(CAL, 'Calibrator.calibrate')); args = fn.node.args; names = [a.arg for a in args.args]; defaults = dict(zip(names[len(names) - len(args.defaults):], [U(d) for d in args.defaults]))
    tree = ast.parse(core.read_source(CAL)); imports = [U(s) for s in tree.body if isinstance(s, (ast.Import, ast.ImportFrom))]
    ob(fn, 'default-update-function-is-calibration_utils.moving_average_update', defaults.get('qsv_update_func') == 'calibration_utils.moving_average_update' and 'from ai_edge_quantizer.utils import calibration_utils' in imports, str(defaults))
    calls = [n for n in ast.walk(fn.node) if isinstance(n, ast.Call) and U(n.func) == 'calibrate_func']
    ob(fn, 'calibration-function-called-with-(op, graph_info, content map)-only', len(calls) == 1 and [U(a) for a in calls[0].args] == ['op', 'graph_info', 'self._tensor_content_map'] and not calls[0].keywords, str([U(c) for c in calls]))
    loops = [n for n in ast.walk(fn.node) if isinstance(n, ast.For) and isinstance(n.target, ast.Name) and n.target.id == 'data']
    ob(fn, 'data-loop-iterates-the-dataset-argument-directly', len(loops) == 1 and U(loops[0].iter) == 'calibration_dataset', str([U(l.iter) for l in loops]))
    cls = next(n for n in tree.body if isinstance(n, ast.ClassDef) and n.name == 'Calibrator'); where = []
    for f in cls.body:
        if isinstance(f, ast.FunctionDef):
            for n in ast.walk(f):
                tg = n.targets if isinstance(n, ast.Assign) else [n.target] if isinstance(n, (ast.AugAssign, ast.AnnAssign)) else []
                if any(U(t) == 'self._model_qsvs' for t in tg): where.append((f.name, U(n.value) if n.value is not None else None))
    fn = rep.fn(core.Fn(CAL, 'Calibrator.__init__'))
    ob(fn, 'self._model_qsvs-is-rebound-only-by-__init__({})/reset_model_qsvs({})/load_model_qsvs(deepcopy)', sorted(where) == sorted([('__init__', '{}'), ('reset_model_qsvs', '{}'), ('load_model_qsvs', 'copy.deepcopy(model_qsvs)')]), str(where))
    return out

# ---------------------------------------------------------------------------------------------- spec lemmas
def _unsat(hyps, goal, timeout=20000):
    s = z3.Solver(); s.set('timeout', timeout); s.add(*hyps); s.add(z3.Not(goal)); t0 = time.time(); r = s.check()
    return ('proved' if r == z3.unsat else 'refuted' if r == z3.sat else 'unknown'), time.time() - t0, (str(s.model())[:500] if r == z3.sat else None)

def fold_lemma(hidden_position=False):
    """fold(s, D, 0) = s ; fold(s, D, k+1) = step(fold(s, D, k), D[k]).  C = D1 ++ D2.  Two inductions, each as base + step goal with the
    induction hypothesis as an explicit instance:   P(k): fold(s, C, k) == fold(s, D1, k)  (k <= n1)
                                                    R(m): fold(fold(s, D1, n1), D2, m) == fold(s, C, n1 + m)  (m <= n2).
    hidden_position=True is the canary: a step that also reads the position of the sample inside its session."""
    St, Sa, Sq = z3.DeclareSort('State'), z3.DeclareSort('Sample'), z3.DeclareSort('Dataset'); I = z3.IntSort()
    at = z3.Function('at', Sq, I, Sa); s = z3.Const('s', St); D1, D2, C = z3.Consts('D1 D2 C', Sq); n1, n2, k, m = z3.Ints('n1 n2 k m')
    if hidden_position:
        step3 = z3.Function('step', St, Sa, I, St); step = lambda st, x, pos: step3(st, x, pos)
    else:
        step2 = z3.Function('step', St, Sa, St); step = lambda st, x, pos: step2(st, x)
    F = z3.Function('fold', St, Sq, I, St)
    def fold_step(st, D, j): return z3.Implies(j >= 0, F(st, D, j + 1) == step(F(st, D, j), at(D, j), j))       # definitional axiom, instance at (st, D, j)
    def fold_base(st, D): return F(st, D, 0) == st
    def cat(j): return z3.Implies(z3.And(0 <= j, j < n1 + n2), at(C, j) == z3.If(j < n1, at(D1, j), at(D2, j - n1)))   # C = D1 ++ D2, instance at j
    pre = [n1 >= 0, n2 >= 0]; s1 = F(s, D1, n1)
    return [('prefix.base: fold(s, D1++D2, 0) == fold(s, D1, 0)', pre + [fold_base(s, C), fold_base(s, D1)], F(s, C, 0) == F(s, D1, 0)),
            ('prefix.step: k < n1 and fold(s, D1++D2, k) == fold(s, D1, k)  =>  the same at k+1', pre + [0 <= k, k < n1, F(s, C, k) == F(s, D1, k), fold_step(s, C, k), fold_step(s, D1, k), cat(k)], F(s, C, k + 1) == F(s, D1, k + 1)),
            ('resume.base: fold(fold(s, D1), D2, 0) == fold(s, D1++D2, n1)   [uses prefix at k = n1]', pre + [F(s, C, n1) == F(s, D1, n1), fold_base(s1, D2)], F(s1, D2, 0) == F(s, C, n1 + 0)),
            ('resume.step: m < n2 and fold(fold(s, D1), D2, m) == fold(s, D1++D2, n1+m)  =>  the same at m+1', pre + [0 <= m, m < n2, F(s1, D2, m) == F(s, C, n1 + m), fold_step(s1, D2, m), fold_step(s, C, n1 + m), cat(n1 + m)],
             F(s1, D2, m + 1) == F(s, C, n1 + m + 1))]

def io_duplicates_lemma():
    """EX(0) = False, EX(j+1) = EX(j) or T(j), T(j) = T_in / T_out by parity for j >= n0  (contracts/c09_calibrate.py).
    Claim: EX(n0 + 2(i+1)) == EX(n0 + 2) for every i >= 0 -- the pseudo-operators appended again for later samples report nothing new."""
    EX = z3.Function('EX', z3.IntSort(), z3.BoolSort()); T = z3.Function('T', z3.IntSort(), z3.BoolSort()); tin, tout = z3.Bools('T_in T_out'); n0, i = z3.Ints('n0 i')
    stepf = lambda j: z3.Implies(j >= 0, EX(j + 1) == z3.Or(EX(j), T(j))); par = lambda j: z3.Implies(j >= n0, T(j) == z3.If((j - n0) % 2 == 0, tin, tout))
    pre = [n0 >= 0, i >= 0]; a = n0 + 2 * i + 2
    return [('io-duplicates.base: i = 0', pre, z3.Implies(i == 0, EX(n0 + 2 * i + 2) == EX(n0 + 2))),
            ('io-duplicates.step: REP_i == REP_0  =>  REP_(i+1) == REP_0', pre + [EX(a) == EX(n0 + 2), stepf(n0), stepf(n0 + 1), par(n0), par(n0 + 1), stepf(a), stepf(a + 1), par(a), par(a + 1)], EX(n0 + 2 * (i + 1) + 2) == EX(n0 + 2))]

def lemma_obligations():
    out = []
    for label, hyps, goal in fold_lemma() + io_duplicates_lemma():
        st, dt, model = _unsat(hyps, goal)
        out.append(core.Ob(f'C09/spec-lemma/{label.split(":")[0]}', None, 'z3-qf(induction-spelled-out)', st, dt, detail=model, clause=label,
                           replay=None if st == 'proved' else dict(confirmed=False, note='spec-level lemma (no code involved)', model=model)))
    return out

# ---------------------------------------------------------------------------------------------- symnp families
def families(M, cu, only=None):
    fam = {'moving-average': lambda: c09_stats.fam_moving_average(cu), 'calibrate-func': lambda: c09_stats.fam_calibrate_func(M), 'init-qsvs': lambda: c09_stats.fam_init_qsvs(M),
           'registry': lambda: c09_stats.fam_registry(M)}
    out = []
    for k, f in fam.items():
        if only is None or k in only:
            gl = f()
            for g in gl: g.family = k
            out += gl
    return out

# ---------------------------------------------------------------------------------------------- canaries
PYVC_CANARIES = [
    ('_update_qsvs: ignore set not consulted', CAL, 'Calibrator._update_qsvs', c09_qsvs.UpdateQsvs, pyvc.Engine, '      if tensor_name in ignore_tensor_names:\n        continue\n', '      if False:\n        continue\n', None),
    ('_update_qsvs: update function called with (new, old)', CAL, 'Calibrator._update_qsvs', c09_qsvs.UpdateQsvs, pyvc.Engine, 'qsv_update_func(self._model_qsvs[tensor_name], qsv)', 'qsv_update_func(qsv, self._model_qsvs[tensor_name])', None),
    ('_update_qsvs: updated names not returned', CAL, 'Calibrator._update_qsvs', c09_qsvs.UpdateQsvs, pyvc.Engine, '      updated_tensor_names.add(tensor_name)\n    return updated_tensor_names', '    return updated_tensor_names', None),
    ('_update_qsvs: existing entry overwritten instead of folded', CAL, 'Calibrator._update_qsvs', c09_qsvs.UpdateQsvs, pyvc.Engine, '        self._model_qsvs[tensor_name] = updated_qsv', '        self._model_qsvs[tensor_name] = qsv', None),
    ('load_model_qsvs: no copy', CAL, 'Calibrator.load_model_qsvs', c09_qsvs.LoadModelQsvs, pyvc.Engine, 'self._model_qsvs = copy.deepcopy(model_qsvs)', 'self._model_qsvs = model_qsvs', None),
    ('load_model_qsvs: shallow copy', CAL, 'Calibrator.load_model_qsvs', c09_qsvs.LoadModelQsvs, pyvc.Engine, 'self._model_qsvs = copy.deepcopy(model_qsvs)', 'self._model_qsvs = dict(model_qsvs)', None),
    ('calibrate: per-sample ignore set not passed to _update_qsvs', CAL, 'Calibrator.calibrate', c09_calibrate.Calibrate, c09_calibrate.EngineX, '              op_qsvs, updated_tensor_names, qsv_update_func\n', '              op_qsvs, set(), qsv_update_func\n',
     ('callsite:_update_qsvs.ignore-set',)),
    ('calibrate: ignore set created once for the whole dataset', CAL, 'Calibrator.calibrate', c09_calibrate.Calibrate, c09_calibrate.EngineX,
     '    for data in calibration_dataset:\n      # Initialize tensor names that are updated in this round of calibration.\n      updated_tensor_names = set()\n', '    updated_tensor_names = set()\n    for data in calibration_dataset:\n', ('loop1-entry:per-sample-updated-set',)),
    ('calibrate: returned names not added to the per-sample set (a tensor of two ops folded twice per sample)', CAL, 'Calibrator.calibrate', c09_calibrate.Calibrate, c09_calibrate.EngineX, '          updated_tensor_names.update(op_updated_tensor_name)\n', '          pass\n', ('loop2-preserve:updated-set[name]',)),
    ('calibrate: interpreter not reset after a sample', CAL, 'Calibrator.calibrate', c09_calibrate.Calibrate, c09_calibrate.EngineX, '      self._tfl_interpreter.reset_all_variables()\n', '      pass\n', ('loop0-preserve:interpreter-reset',)),
    ('calibrate: content map of subgraph 0 instead of the invoked subgraph (the repaired defect)', CAL, 'Calibrator.calibrate', c09_calibrate.Calibrate, c09_calibrate.EngineX, '              self._tfl_interpreter, subgraph_index\n          )\n      )', '              self._tfl_interpreter, 0\n          )\n      )',
     ('callsite:content-map', 'callsite:calibrate_func')),
    ('calibrate: every round invokes the FIRST sample of the dataset', CAL, 'Calibrator.calibrate', c09_calibrate.Calibrate, c09_calibrate.EngineX, '          self._tfl_interpreter, data, signature_key\n', '          self._tfl_interpreter, calibration_dataset[0], signature_key\n',
     ('callsite:invoke', 'callsite:content-map')),
    ('_initialize_model_qsvs: last writer wins (presence test dropped)', CAL, 'Calibrator._initialize_model_qsvs', c09_init.InitQsvs, pyvc.Engine, '          if tensor_name not in self._model_qsvs:\n            self._model_qsvs[tensor_name] = qsv', '          if True:\n            self._model_qsvs[tensor_name] = qsv', ('loop2-preserve:model[name]',)),
    ('_initialize_model_qsvs: init function gets operator index 0 for every operator', CAL, 'Calibrator._initialize_model_qsvs', c09_init.InitQsvs, pyvc.Engine, 'qtyping.OpInfo(op, op_key, subgraph_op_id, op_quant_config)', 'qtyping.OpInfo(op, op_key, 0, op_quant_config)', ('loop1-preserve:model[name]',)),
    ('_initialize_model_qsvs: graph info of the FIRST subgraph for every subgraph', CAL, 'Calibrator._initialize_model_qsvs', c09_init.InitQsvs, pyvc.Engine, '    for subgraph in self._flatbuffer_model.subgraphs:\n      graph_info = qtyping.GraphInfo(\n          subgraph.tensors, self._flatbuffer_model.buffers\n      )\n      for subgraph_op_id',
     '    for subgraph in self._flatbuffer_model.subgraphs:\n      graph_info = qtyping.GraphInfo(\n          self._flatbuffer_model.subgraphs[0].tensors, self._flatbuffer_model.buffers\n      )\n      for subgraph_op_id', ('loop1-entry:graph-info',)),
    ('get_subgraph_input_output_operators: INPUT pseudo-operator lists the graph OUTPUTS', FBU, 'get_subgraph_input_output_operators', c09_calibrate.IoOps, pyvc.Engine, '      outputs=subgraph.inputs,', '      outputs=subgraph.outputs,', None),
]
SYM_CANARIES = [
    ('moving_average_update: default weight 0.95 -> 0.9', CU, 'smoothing_factor: float = 0.95', 'smoothing_factor: float = 0.9', 'moving-average', ['shape1x1.nonempty-old: min == 0.95*old.min + (1-0.95)*new.min', 'default-weight-is-the-literal-0.95']),
    ('_update_moving_average: (1 - a) -> (1 + a)', CU, '(1.0 - smoothing_factor) * update', '(1.0 + smoothing_factor) * update', 'moving-average', ['any-factor: result == s*w + (1-s)*update']),
    ('moving_average_update: max folded with the new MIN', CU, 'smoothing_factor, qsv["max"], new_qsv["max"]', 'smoothing_factor, qsv["max"], new_qsv["min"]', 'moving-average', ['shape1x1.nonempty-old: max == 0.95*old.max + (1-0.95)*new.max']),
    ('moving_average_update: old dict updated in place and returned', CU, '  updated_qsv = {}\n  updated_qsv["min"] = _update_moving_average(', '  updated_qsv = qsv\n  updated_qsv["min"] = _update_moving_average(', 'moving-average',
     ['shape1x1.nonempty-old: fresh {min,max} dict; arguments not written; shape/dtype kept']),
    ('min_max_calibrate: "max" recorded with np.min', cc.NMM, '"max": np.max(tensor_content, axis=None, keepdims=True),', '"max": np.min(tensor_content, axis=None, keepdims=True),', 'calibrate-func', ['ADD.values-are-min/max-of-the-content-map-entry-over-all-axes']),
    ('min_max_calibrate: reduction over axis 0 only', cc.NMM, '"min": np.min(tensor_content, axis=None, keepdims=True),', '"min": np.min(tensor_content, axis=0, keepdims=True),', 'calibrate-func', ['CONV_2D.values-are-min/max-of-the-content-map-entry-over-all-axes']),
    ('min_max_calibrate: outputs_to_ignore not honoured', cc.NMM, '    if tensor_idx != -1 and i not in outputs_to_ignore:\n      _collect_activation_tensor_min_max(tensor_idx)', '    if tensor_idx != -1:\n      _collect_activation_tensor_min_max(tensor_idx)', 'calibrate-func',
     ['SPLIT.outputs_to_ignore=[1].names-are-exactly-the-runtime-operands']),
    ('min_max_calibrate: constants are not skipped (statistics of weights overwritten by calibration)', cc.NMM, '    if tensor_data is not None:\n      return\n    tensor_name = tfl_flatbuffer_utils.get_tensor_name(tensor)\n    tensor_content', '    if False:\n      return\n    tensor_name = tfl_flatbuffer_utils.get_tensor_name(tensor)\n    tensor_content', 'calibrate-func',
     ['FULLY_CONNECTED.names-are-exactly-the-runtime-operands']),
    ('init_qsvs: output operands skipped', cc.NMM, '  for i, tensor_idx in enumerate(op_info.op.outputs):\n    if tensor_idx != -1 and i not in outputs_to_ignore:\n      tensor = graph_info.subgraph_tensors[tensor_idx]',
     '  for i, tensor_idx in enumerate(op_info.op.outputs):\n    if False:\n      tensor = graph_info.subgraph_tensors[tensor_idx]', 'init-qsvs', ['FULLY_CONNECTED.every-operand-gets-init_tensor_min_max-of-its-own-tensor']),
]

def run_canaries(rep, M, cu, base):
    for name, rel, qual, mk, eng, a, b, expect in PYVC_CANARIES:
        src = core.read_source(rel)
        if a not in src: rep.canary(name, False, 'mutation site not found (stale canary)'); continue
        try:
            E = c09_calibrate.run_function(core.Fn(rel, qual, src_override=src.replace(a, b)), mk(), engine=eng)
            if expect: E.obs = [ob for ob in E.obs if ob.label.startswith(expect)]           # only the obligations the mutation must break (the full set is decided in the base run)
            bad = sorted({ob.label for ob, st, dt, det, mv in pyvc.decide_parallel(E, E.spec, timeout=20000, canary=True) if st != 'proved'})
            rep.canary(name, bool(bad), str([x[:70] for x in bad[:3]]))
        except pyvc.Unsupported as e: rep.canary(name, True, f'mutant leaves the engine subset: {e}')
    for name, rel, a, b, fam, expect in SYM_CANARIES:
        src = core.read_source(rel)
        if a not in src: rep.canary(name, False, 'mutation site not found (stale canary)'); continue
        try:
            if rel == CU: gl = families(M, c09_stats.load_cu(src.replace(a, b, 1)), only=[fam])
            else: gl = families(cc.load_mods({rel: src.replace(a, b, 1)}, want=('uq', 'fbu', 'utils', 'nmm')), cu, only=[fam])
        except Exception as e:
            rep.canary(name, True, f'mutant rejected while executing: {type(e).__name__}: {e}'); continue
        gl = [g for g in gl if g.id in expect]; missing = [e for e in expect if e not in {g.id for g in gl}]
        if missing: rep.canary(name, False, f'expected obligations not generated: {missing}'); continue
        rs = cc.discharge(gl, parallel=False)
        rep.canary(name, any(r[0] != 'proved' for r in rs) and all(base.get(g.id) == 'proved' for g in gl), str([(g.id[:60], r[0]) for g, r in zip(gl, rs)]))
    # spec-lemma canary: without the premise "the per-sample step reads (state, sample) only" the resume lemma must not go through
    rs = [_unsat(h, g, 5000)[0] for _, h, g in fold_lemma(hidden_position=True)]
    rep.canary('fold/resume lemma with a step that also reads the position of the sample inside its session', any(r != 'proved' for r in rs), str(rs))

# ---------------------------------------------------------------------------------------------- bounded stand-in
def standin(rep):
    from replay import c09_native as nat
    models = nat.FIXTURES if rep.tier == 'thorough' else nat.FIXTURES[:4]; seeds = (1, 2, 3) if rep.tier == 'thorough' else (1,)
    cases = 0; fails = []
    for name in models:
        for seed in seeds:
            c, f = nat.check_model(name, 3, seed); cases += c; fails += f
    c, f = nat.check_multi_signature(); cases += c; fails += f
    rep.add_bounded('Quantizer.calibrate (public API) vs our own interpreter runs',
                    f'{len(models)} fixtures x default_a8w8 recipe x {len(seeds)} seeded dataset(s) of 3 samples: for n = 1..3 every recorded runtime tensor == moving average (0.95, binary64 reference, rtol 2e-5) of the true per-sample '
                    'min/max in dataset order (and of the reversed order for the reversed dataset); every constant == true per-tensor / per-channel min/max; every split of the n samples into resumed sessions == the single pass BITWISE, '
                    'previous result unchanged and sharing no array with the returned one; several sessions on ONE Quantizer (a session without a previous result equals a fresh Quantizer, earlier results untouched, resuming equals the single pass); + two_signatures.tflite: both signatures, second session resumed', cases, len(fails))
    if fails:
        ob = core.Ob('C09/bounded.Quantizer.calibrate/statistics-exact-ordered-resumable', None, 'bounded-native', core.REFUTED, 0.0, detail=str(fails[0])[:1500], clause=fails[0].get('what', ''))
        ob.replay = dict(confirmed=True, inputs={k: v for k, v in fails[0].items() if k in ('model', 'seed', 'n', 'sessions', 'tensor', 'signature')}, observed=fails[0]); rep.add(ob)
    try: rep.extra['operator_list_growth_observation'] = nat.operator_list_growth()
    except Exception as e: rep.extra['operator_list_growth_observation'] = f'observation failed: {e!r}'
    return fails

def native_moving_average_search(cu):
    """the real moving_average_update on concrete statistics (zero, negative zero, tiny, ordinary; scalars and 1-element / per-channel arrays) against
    the specification  {} -> new ;  otherwise 0.95 * old + 0.05 * new  for min and max"""
    vals = [0.0, -0.0, 1e-30, -1.5, 2.25, 7.0]
    shapes = [lambda v: np.float32(v), lambda v: np.array([v], dtype=np.float32), lambda v: np.array([[v]], dtype=np.float32), lambda v: np.array([v, 1.0], dtype=np.float32)]
    for mk in shapes:
        for omin in vals:
            for omax in vals:
                for nmin, nmax in ((-3.0, 4.0), (0.0, 0.0), (0.5, 0.5)):
                    old = {'min': mk(omin), 'max': mk(omax)}; new = {'min': mk(nmin), 'max': mk(nmax)}
                    try: got = cu.moving_average_update(dict(old), dict(new))
                    except Exception as e: return dict(confirmed=True, inputs=dict(old=str(old), new=str(new)), violated=[f'raised {type(e).__name__}: {e}'])
                    for k in ('min', 'max'):
                        want = 0.95 * np.asarray(old[k], dtype=np.float64) + 0.05 * np.asarray(new[k], dtype=np.float64)
                        if not np.allclose(np.asarray(got[k], dtype=np.float64), want, rtol=1e-5, atol=1e-30):
                            return dict(confirmed=True, inputs=dict(old=str(old), new=str(new)), violated=[f'{k}: got {got[k]!r}, specification 0.95*old + 0.05*new = {want!r}'])
    try:
        if cu.moving_average_update({}, {'min': np.float32(1), 'max': np.float32(2)}) != {'min': np.float32(1), 'max': np.float32(2)}: return dict(confirmed=True, inputs='empty old statistics', violated=['empty statistics are not replaced by the new ones'])
    except Exception as e: return dict(confirmed=True, inputs='empty old statistics', violated=[f'raised {type(e).__name__}'])
    return None

# ---------------------------------------------------------------------------------------------- driver
def run(rep):
    M = cc.load_mods(want=('uq', 'fbu', 'utils', 'nmm')); cu = c09_stats.load_cu(); fns = {k: rep.fn(core.Fn(rel, q)) for k, (rel, q) in FNS.items()}
    # (1) pyvc
    pyvc.verify(rep, 'C09', core.Fn(CAL, 'Calibrator._update_qsvs'), c09_qsvs.UpdateQsvs())
    pyvc.verify(rep, 'C09', core.Fn(CAL, 'Calibrator.load_model_qsvs'), c09_qsvs.LoadModelQsvs())
    pyvc.verify(rep, 'C09', core.Fn(FBU, 'get_subgraph_input_output_operators'), c09_calibrate.IoOps())
    c09_calibrate.verify(rep, 'C09', core.Fn(CAL, 'Calibrator.calibrate'), c09_calibrate.Calibrate())
    pyvc.verify(rep, 'C09', core.Fn(CAL, 'Calibrator._initialize_model_qsvs'), c09_init.InitQsvs())
    # (2) symnp / cpython-exec / exhaustive-native families
    try: goals = families(M, cu)
    except symnp.Undecided as e:
        # the changed arithmetic carriers leave the symbolic front end (e.g. a branch on a statistic's VALUE): undecided, unless the native search finds a failing input
        goals = []; fb = native_moving_average_search(cu)
        ob = core.Ob('C09/utils.calibration_utils.moving_average_update/engine-subset', fns.get('calibration_utils.moving_average_update'), 'cpython-exec-symnp', core.REFUTED if fb else core.UNKNOWN, 0.0,
                     detail=f'the symbolic front end could not follow the code: {e}', clause='functions within the symbolic-numpy subset (control flow must not depend on array values)')
        if fb: ob.replay = fb
        rep.add(ob)
    res = cc.discharge(goals); cc.register(rep, 'C09', fns, goals, res); base = {g.id: r[0] for g, r in zip(goals, res)}
    rep.extra['obligations_per_family'] = {k: sum(1 for g in goals if g.family == k) for k in ('moving-average', 'calibrate-func', 'init-qsvs', 'registry')}
    # (3) dataflow obligations and spec lemmas
    rep.extend(ast_obligations(rep)); rep.extend(lemma_obligations())
    # (4) bounded stand-in through the public API
    fails = standin(rep)
    if not fails and any(o.status == core.REFUTED for o in rep.obs): rep.notes.append('an obligation is refuted although the bounded stand-in found no failing input on the fixtures')
    if fails:
        # counter-models of the contracts are abstract (uninterpreted callees): the natively failing public-API scenario found by the bounded search is attached as the replayed input
        nat_rp = dict(confirmed=True, inputs={k: v for k, v in fails[0].items() if k in ('model', 'seed', 'n', 'sessions', 'tensor', 'signature')}, observed=fails[0],
                      note='failing input found by the bounded native search through Quantizer.calibrate (first failing scenario); the solver counter-model of this obligation is abstract')
        for o in rep.obs:
            if o.status == core.REFUTED and not (isinstance(o.replay, dict) and o.replay.get('confirmed')): o.replay = dict(nat_rp, abstract_counter_model=(o.replay or {}).get('inputs') if isinstance(o.replay, dict) else None)
    # (5) canaries, covers
    run_canaries(rep, M, cu, base)
    for k, n in rep.extra['obligations_per_family'].items(): rep.cover(f'family.{k}.non-empty', n > 0)
    s = z3.Solver(); a, b = z3.Reals('a b'); s.add(a <= b); rep.cover('moving-average.min<=max-precondition', s.check() == z3.sat)
    Mi = cc.load_mods({cc.NMM: core.read_source(cc.NMM)}, want=('uq', 'fbu', 'utils', 'nmm')); gi = families(Mi, c09_stats.load_cu(core.read_source(CU)), only=['moving-average', 'calibrate-func', 'init-qsvs']); ri = cc.discharge(gi, parallel=False)
    rep.cover('mutant-loader.identity-mutation-reproduces-all-verdicts', all(r[0] == base.get(g.id) for g, r in zip(gi, ri)) and len(gi) > 50)
    # trusted base / assumptions
    rep.trust('numpy elementwise arithmetic = pointwise lifting on the promoted dtype; np.min / np.max(axis=None, keepdims=True) return the minimum / maximum of the whole array (value content compared natively in the bounded stand-in only)')
    rep.trust('copy.deepcopy(x): fresh object graph, structurally equal to x, sharing no mutable object with x (library semantics; stated as the callee contract of load_model_qsvs)')
    rep.trust('python dict / set / list = the engine models (insertion-ordered map, membership set, array + length); a calibration dataset is modelled as a list (any Iterable is consumed in iteration order)')
    rep.trust('allocation: an object created inside the calibrate loop differs from every object reachable from the operator list (the engine only knows that it differs from the objects allocated at function entry); '
              'stated as a fact of the callee contract of get_subgraph_input_output_operators')
    rep.trust('C04 (cited, not redone): init_tensor_min_max on symbolic constant content = np.min / np.max over every axis but the quantized dimension (families statistics / qdim), _get_reduce_dims = complement of the quantized dimension')
    rep.trust('C10 / C11 (cited): _get_op_scope = join of the output names (a function of op.outputs and the tensors); RecipeManager.get_quantization_configs is a pure function of its view')
    rep.trust('C14 (cited): Calibrator.calibrate writes nothing reachable from the dataset or the recipe manager (frame analysis); here: every heap store of calibrate / _update_qsvs / load_model_qsvs is checked against the frame of its contract')
    rep.assume('interpreter (external LiteRT runtime): after invoking a signature on a sample the preserved tensors of the signature subgraph are the true tensors of the float model for that sample, a function of the sample only; '
               'reset_all_variables() leaves no state behind (ghost field loaded_sample); the content-map keys are the tensor names of the invoked subgraph')
    rep.assume('float32 arithmetic of the moving average treated as real arithmetic (0.95 = binary64 value of the literal; 1.0 - 0.95 is exact in binary64); the bounded stand-in compares with rtol 2e-5')
    rep.assume('QSV objects are abstract values in the pyvc contracts (UPD / STAT are uninterpreted); tensor names identify tensors (duplicate names within the walked subgraphs share one entry)')
    rep.assume('constants: _initialize_model_qsvs stores the init-function result of the FIRST selected operator that lists the tensor (proved); which granularity that is (per tensor / per channel) depends on that operator and its config, '
               'as the property allows ("per-tensor or per-channel"); calibration never reports a constant (min_max_calibrate skips tensors with buffer data, proved) provided no runtime tensor shares its name')

def replay(payload):
    inp = payload.get('inputs') or {}; oid = payload.get('obligation', '')
    print('replaying', oid, inp)
    if 'model' in inp:
        from replay import c09_native as nat
        f = nat.replay_case(inp); print(f[:3]); return 1 if f else 0
    fam = inp.get('family')
    if fam:
        M = cc.load_mods(want=('uq', 'fbu', 'utils', 'nmm')); cu = c09_stats.load_cu()
        if fam == 'moving-average' and 'old' in inp:
            rp = c09_stats.native_ma(cu, {f'{a}_{k}': str(fractions.Fraction(inp[a][k])) for a in ('old', 'new') for k in ('min', 'max')}); print(rp); return 1 if rp['confirmed'] else 0
        goals = [g for g in families(M, cu, only=[fam]) if oid.endswith('/' + g.id)]; res = cc.discharge(goals, parallel=False)
        for g, r in zip(goals, res): print(g.id, r[0], g.observed)
        return 1 if any(r[0] != 'proved' for r in res) else 0
    print('no native input recorded for this obligation (abstract counter-model of a contract / structural obligation)'); return 0
