"""C13 — every accepted (operator, config) pair is sound downstream; every other one is refused (specific operator) or left unquantized ('*').

Functions under contract (real source, executed natively):
  recipe_manager.RecipeManager.add_quantization_config / get_quantization_configs,
  algorithm_manager_api.AlgorithmManagerApi.check_op_quantization_config,
  naive_min_max_quantize.check_op_quantization_config, float_casting.check_op_quantization_config,
  min_max_quantize_utils.check_if_valid_op_config / check_subchannel_config / get_tensor_transformations / _get_tensor_transformation_params_wrapper /
  init_tensor_min_max / _get_tensor_quant_params / _get_reduce_dims, default_policy._unroll_json_config / update_default_config_policy,
  quantize_tensor.quant_params_to_tflite_type / nonlinear_quant_params_to_tflite_type, uniform_quantize_tensor.symmetric_quantize_bias_tensor,
  qtyping.OpQuantizationConfig.__post_init__.

Deciding method: the quantifier of the property is a FINITE lattice (every TFLOperationName selector x activation {none, 8, 16 bit} x
{symmetric, asymmetric} x weight {none, 4, 8, 16 bit} x {symmetric, asymmetric} x {TENSORWISE, CHANNELWISE, BLOCKWISE(block 0 / 32)} x
{INT, FLOAT} x compute precision x explicit_dequantize x 2 algorithms, skip_checks = False).  The real functions are executed on ALL of
it, so each clause below is decided completely (not sampled):
  c1  specific operator: add_quantization_config returns or raises ValueError (nothing else); state unchanged on refusal, one rule on acceptance
  c2  '*' never raises at update time; at resolution an unsupported pair yields (no_quantize, default config), a supported one its rule
  c3  no late failure for accepted pairs: mode table of get_tensor_transformations, real parameter materialisation of a constant weight /
      activation / output / fused bias (quantized-dimension lookup included), tflite dtype table, registered materialize functions
  c4  accept == policy membership (min_max: against the registered DEFAULT_CONFIG_CHECK_POLICY AND an independent unrolling of the JSON
      text; float_casting: against its documented support predicate)
One obligation per (operator, algorithm, clause); the first failing configuration is the replayed witness."""
import contextlib, importlib, itertools, json, os, sys, time, types
import numpy as np
from vlib import core

LEVEL = 'proof'
QT, RM, AMA, AM, DP = 'qtyping.py', 'recipe_manager.py', 'algorithm_manager_api.py', 'algorithm_manager.py', 'default_policy.py'
MMU, NMM, FC = 'algorithms/utils/min_max_quantize_utils.py', 'algorithms/uniform_quantize/naive_min_max_quantize.py', 'algorithms/nonlinear_quantize/float_casting.py'
QTEN, UQT, TFU = 'transformations/quantize_tensor.py', 'algorithms/uniform_quantize/uniform_quantize_tensor.py', 'utils/tfl_flatbuffer_utils.py'
ALGS = ('min_max_uniform_quantize', 'float_casting')
NOQ = 'no_quantize'
CL = {
 'c1': 'C13/recipe_manager.RecipeManager.add_quantization_config/accept-or-ValueError',
 'c2': 'C13/recipe_manager.RecipeManager.get_quantization_configs/star-resolves-supported-or-no-quantize',
 'c3': {'min_max_uniform_quantize': 'C13/min_max_quantize_utils.get_tensor_transformations/no-late-failure',
        'float_casting': 'C13/float_casting.check_op_quantization_config/no-late-failure'},
 'c4': 'C13/algorithm_manager_api.AlgorithmManagerApi.check_op_quantization_config/accept-iff-policy',
 'c2u': 'C13/recipe_manager.RecipeManager.add_quantization_config/star-never-raises',
}
def describe(e): return f'{type(e).__name__}: {str(e)[:160]}'

# ------------------------------------------------------------------------------------------------ real modules
class Mods:
    def __init__(s, **k): s.__dict__.update(k); s.cache = {}
    def variant(s, **k):
        d = {a: b for a, b in s.__dict__.items() if a != 'cache'}; d.update(k); return Mods(**d)

def _exec_module(name, relpath, src):
    m = types.ModuleType(name); m.__file__ = os.path.join(core.PKG, relpath); sys.modules[name] = m
    exec(compile(src, m.__file__, 'exec'), m.__dict__); return m

def load_all():
    core.stub_package(); imp = lambda n: importlib.import_module('ai_edge_quantizer.' + n)
    m = Mods(q=imp('qtyping'), dp=imp('default_policy'), am=imp('algorithm_manager'), rm=imp('recipe_manager'), mmu=imp('algorithms.utils.min_max_quantize_utils'),
             nmm=imp('algorithms.uniform_quantize.naive_min_max_quantize'), fc=imp('algorithms.nonlinear_quantize.float_casting'),
             qten=imp('transformations.quantize_tensor'), uqt=imp('algorithms.uniform_quantize.uniform_quantize_tensor'), tfu=imp('utils.tfl_flatbuffer_utils'))
    from ai_edge_litert import schema_py_generated as schema
    m.schema = schema
    try:
        from absl import logging as absl_logging
        absl_logging.set_verbosity(absl_logging.ERROR)
    except Exception: pass
    return m

@contextlib.contextmanager
def swapped(obj, attr, val):
    old = getattr(obj, attr); setattr(obj, attr, val)
    try: yield
    finally: setattr(obj, attr, old)

# ------------------------------------------------------------------------------------------------ the lattice
ACTS = [None] + [(b, s) for b in (8, 16) for s in (True, False)]                       # TENSORWISE, INT (the quantifier's activation axis)
def weights(q):
    out = [None]
    for b in (4, 8, 16):
        for s in (True, False):
            for d in q.TensorDataType:
                for g in q.QuantGranularity:
                    for blk in ((0, 32) if g == q.QuantGranularity.BLOCKWISE else (0,)): out.append((b, s, g.value, d.value, blk))
    return out
def specs(q): return [(a, w, cp.value, ed) for a in ACTS for w in weights(q) for cp in q.ComputePrecision for ed in (False, True)]
def operators(q): return [o for o in q.TFLOperationName if o != q.TFLOperationName.ALL_SUPPORTED]
def skey(s):
    a, w, cp, ed = s
    ak = 'None' if a is None else f'i{a[0]}{"s" if a[1] else "a"}'
    wk = 'None' if w is None else f'{w[3]}{w[0]}-{"sym" if w[1] else "asym"}-{w[2]}-b{w[4]}'
    return f'a={ak}.w={wk}.cp={cp}.ed={int(ed)}'
def enc(s):
    a, w, cp, ed = s
    return dict(activation=None if a is None else dict(num_bits=a[0], symmetric=a[1], granularity='TENSORWISE', dtype='INT', block_size=0),
                weight=None if w is None else dict(num_bits=w[0], symmetric=w[1], granularity=w[2], dtype=w[3], block_size=w[4]),
                compute_precision=cp, explicit_dequantize=ed, skip_checks=False)
def dec(d):
    a, w = d['activation'], d['weight']
    return (None if a is None else (a['num_bits'], a['symmetric']), None if w is None else (w['num_bits'], w['symmetric'], w['granularity'], w['dtype'], w.get('block_size', 0)),
            d['compute_precision'], d['explicit_dequantize'])
def build(m, s):
    """the real constructor (runs the real __post_init__): config object, or None when construction refuses with ValueError"""
    key = ('cfg', s)
    if key in m.cache: return m.cache[key]
    q = m.q; a, w, cp, ed = s
    try:
        ta = None if a is None else q.TensorQuantizationConfig(a[0], a[1], q.QuantGranularity.TENSORWISE, q.TensorDataType.INT)
        tw = None if w is None else q.TensorQuantizationConfig(w[0], w[1], q.QuantGranularity(w[2]), q.TensorDataType(w[3]), w[4])
        c = q.OpQuantizationConfig(ta, tw, q.ComputePrecision(cp), ed)
    except ValueError: c = None
    m.cache[key] = c; return c

def specific_add(m, op, alg, s):
    """('accepted'|'refused'|'refused@construction'|'other', text) for add_quantization_config on a fresh manager with a SPECIFIC operator"""
    key = ('add', op, alg, s)
    if key in m.cache: return m.cache[key]
    try: c = build(m, s)
    except Exception as e: r = ('other', 'construction raises ' + describe(e)); m.cache[key] = r; return r
    if c is None: r = ('refused@construction', '')
    else:
        rm = m.rm.RecipeManager()
        try:
            rm.add_quantization_config('.*', op, algorithm_key=m.am.AlgorithmName(alg), op_config=c)
            rec = rm.get_quantization_recipe()
            ok = len(rec) == 1 and rec[0]['regex'] == '.*' and rec[0]['operation'] == op and rec[0]['algorithm_key'] == alg and rec[0]['op_config'] == c.to_dict()
            r = ('accepted', '') if ok else ('other', f'accepted but the recipe is {rec!r}')
        except ValueError as e:
            r = ('refused', str(e)[:120]) if rm.get_quantization_recipe() == [] else ('other', 'refused with ValueError but the recipe changed')
        except Exception as e: r = ('other', 'raises ' + describe(e))
    m.cache[key] = r; return r

# ------------------------------------------------------------------------------------------------ reference predicates (written here / from the JSON text)
def reference_policy(m):
    """independent unrolling of the JSON policy text: set of (op, activation 4-tuple | None, weight 4-tuple, compute precision, explicit_dequantize)"""
    pol = json.loads(m.dp.DEFAULT_JSON_POLICY); ref = set()
    def unroll(t): return [(t['num_bits'], s, g, t['dtype']) for s in t['symmetric'] for g in t['granularity']]
    for name, oplist in pol['ops_per_config'].items():
        c = pol['configs'][name]
        acts = unroll(c['activation_tensor_config']) if 'activation_tensor_config' in c else [None]
        for op in oplist:
            for a in acts:
                for w in unroll(c['weight_tensor_config']): ref.add((op, a, w, c['compute_precision'], c['explicit_dequantize']))
    return ref
def ref_member(m, op, s):
    if 'refpol' not in m.cache: m.cache['refpol'] = reference_policy(m)
    a, w, cp, ed = s
    if w is None or w[4] != 0: return False          # policy entries carry the default block_size 0
    return (op.value, None if a is None else (a[0], a[1], 'TENSORWISE', 'INT'), (w[0], w[1], w[2], w[3]), cp, ed) in m.cache['refpol']
def ref_float_casting(m, op, s):
    """float casting = fp16 weight-only on the operators registered for it: FLOAT compute, no activation config, 16-bit FLOAT weights"""
    a, w, cp, ed = s
    return m.am.is_op_registered(m.am.AlgorithmName.FLOAT_CASTING, op) and cp == 'FLOAT' and a is None and w is not None and w[0] == 16 and w[3] == 'FLOAT'

def expected_transformations(m, s, inbound, const):
    """DESIGN A.10 mode table (SRQ / DRQ / weight-only); None = no mode applies, the function must not have been reached by an accepted config"""
    T = m.q.QuantTransformation; a, w, cp, ed = s
    if cp == 'INTEGER' and a is not None: return [T.QUANTIZE_TENSOR] if (inbound and const) else [T.ADD_QUANTIZE] if inbound else [T.ADD_DEQUANTIZE]
    if cp == 'INTEGER' and a is None: return [T.QUANTIZE_TENSOR] if (inbound and const) else [T.NO_QUANTIZE]
    if w is not None and w[2] == 'BLOCKWISE' and const: return [T.EMULATED_SUBCHANNEL]
    if cp == 'FLOAT' and ed: return [T.ADD_DEQUANTIZE] if (inbound and const) else [T.NO_QUANTIZE]
    return None

# ------------------------------------------------------------------------------------------------ single-case clause evaluators (None = holds)
def eval_c1(m, op, alg, s):
    st, txt = specific_add(m, op, alg, s)
    return None if st in ('accepted', 'refused', 'refused@construction') else txt

def eval_c4(m, op, alg, s):
    st, txt = specific_add(m, op, alg, s)
    if st == 'other': return None                      # reported by c1
    acc = st == 'accepted'
    if alg == 'min_max_uniform_quantize':
        ref = ref_member(m, op, s)
        pol = m.dp.DEFAULT_CONFIG_CHECK_POLICY; c = build(m, s)
        mem = c is not None and c in pol.get(op, [])
        if acc != mem: return f'accepted={acc} but (config in DEFAULT_CONFIG_CHECK_POLICY[{op.value}])={mem} ({txt})'
        if acc != ref: return f'accepted={acc} but the JSON policy text, unrolled independently, says member={ref} ({txt})'
        return None
    ref = ref_float_casting(m, op, s)
    return None if acc == ref else f'accepted={acc} but fp16 weight-only support predicate={ref} ({txt})'

def eval_c2u(m, alg, s):
    try: c = build(m, s)
    except Exception as e: return 'construction raises ' + describe(e)
    if c is None: return None
    try: m.rm.RecipeManager().add_quantization_config('.*', m.q.TFLOperationName.ALL_SUPPORTED, algorithm_key=m.am.AlgorithmName(alg), op_config=c)
    except Exception as e: return "add_quantization_config('.*', '*', ...) raises " + describe(e)
    return None

def eval_c2(m, op, alg, s):
    c = build(m, s)
    if c is None: return None
    key = ('star', alg, s)
    if key not in m.cache:
        rm = m.rm.RecipeManager()
        try: rm.add_quantization_config('.*', m.q.TFLOperationName.ALL_SUPPORTED, algorithm_key=m.am.AlgorithmName(alg), op_config=c)
        except Exception: rm = None                    # reported by c2u
        m.cache[key] = rm
    rm = m.cache[key]
    if rm is None: return None
    try: k, rc = rm.get_quantization_configs(op, 'model/layer_1/out;')
    except Exception as e: return 'get_quantization_configs raises ' + describe(e)
    st, _ = specific_add(m, op, alg, s)
    if st == 'accepted':
        return None if (k == alg and rc == c) else f'supported pair resolves to ({k!r}, {rc!r}) instead of its rule'
    if k != NOQ: return f'unsupported pair (specific update: {st}) resolves to algorithm {str(k)!r} under "*" instead of no_quantize'
    return None if rc == m.q.OpQuantizationConfig() else f'unsupported pair resolves to no_quantize with a non-default config {rc!r}'

W_SHAPES = {'FULLY_CONNECTED': (4, 6), 'CONV_2D': (3, 2, 2, 5), 'DEPTHWISE_CONV_2D': (1, 2, 2, 4), 'CONV_2D_TRANSPOSE': (3, 2, 2, 5), 'EMBEDDING_LOOKUP': (6, 4), 'BATCH_MATMUL': (2, 4, 6)}
QDIM_SPEC = {'FULLY_CONNECTED': 0, 'CONV_2D': 0, 'DEPTHWISE_CONV_2D': 3, 'CONV_2D_TRANSPOSE': 0, 'EMBEDDING_LOOKUP': 0}    # TFLite quantization spec, per-axis weights
BIAS_OPS = {'FULLY_CONNECTED': 0, 'CONV_2D': 0, 'DEPTHWISE_CONV_2D': 3, 'CONV_2D_TRANSPOSE': 0}       # output-channel axis of the weight
def fake_graph(m, op):
    """a constant float32 weight, a runtime input and a runtime output as real flatbuffer objects (TensorT / BufferT)"""
    sch = m.schema; shape = W_SHAPES.get(op.value, (4, 6))
    rng = np.random.RandomState(0); wdata = (rng.rand(*shape).astype(np.float32) - 0.5) * 2
    nb = shape[BIAS_OPS.get(op.value, 0)]; bdata = np.linspace(-1, 1, nb).astype(np.float32)
    def tensor(name, shp, buf):
        t = sch.TensorT(); t.name = name.encode(); t.shape = np.array(shp, np.int32); t.type = m.tfu.TENSOR_TYPE_TO_CODE['FLOAT32']; t.buffer = buf; return t
    def buffer(data):
        b = sch.BufferT(); b.data = None if data is None else np.frombuffer(data.tobytes(), np.uint8); return b
    tensors = [tensor('x', (1, shape[-1]), 1), tensor('w', shape, 2), tensor('y', (1, shape[0]), 3), tensor('b', (nb,), 4)]
    buffers = [buffer(None), buffer(None), buffer(wdata), buffer(None), buffer(bdata)]
    return tensors, buffers, bdata

def eval_c3(m, op, alg, s):
    st, _ = specific_add(m, op, alg, s)
    if st != 'accepted': return None
    c = build(m, s); A = m.am.AlgorithmName(alg); Q = m.q.QuantizeMode
    try:
        if not callable(m.am.get_quantization_func(A, op, Q.MATERIALIZE)) or not callable(m.am.get_quantization_func(A, op, Q.CALIBRATE)): return 'no materialize/calibrate function registered'
        m.am.get_init_qsv_func(A, op)
    except Exception as e: return 'accepted, but the algorithm registry lookup raises ' + describe(e)
    if alg == 'float_casting':
        try:
            if m.qten.nonlinear_quant_params_to_tflite_type(s[1][0]) != m.schema.TensorType.FLOAT16: return 'fp16 weights do not map to TensorType.FLOAT16'
        except Exception as e: return 'nonlinear_quant_params_to_tflite_type raises ' + describe(e)
        if 'get_tensor_transformations' not in core.read_source(FC): return None       # float casting builds its transformations itself (checked textually every run)
    T = m.q.QuantTransformation
    for inbound, const in itertools.product((True, False), (True, False)):
        try: tr = m.mmu.get_tensor_transformations(c, inbound, const)
        except Exception as e: return f'get_tensor_transformations(inbound={inbound}, constant={const}) raises ' + describe(e)
        exp = expected_transformations(m, s, inbound, const)
        if exp is None or list(tr) != exp: return f'get_tensor_transformations(inbound={inbound}, constant={const}) = {tr} but the mode table says {exp}'
    if alg == 'float_casting': return None
    # real parameter materialisation of one constant weight, one runtime input, one runtime output (+ fused bias under SRQ)
    tensors, buffers, bdata = fake_graph(m, op)
    gi = m.q.GraphInfo(subgraph_tensors=tensors, buffers=buffers)
    qsv = {n: {'min': np.array([[-1.5]], np.float32), 'max': np.array([[2.5]], np.float32)} for n in ('x', 'y')}
    ttype = m.qten.quant_params_to_tflite_type
    for adj in ((False, True) if op == m.q.TFLOperationName.BATCH_MATMUL else (None,)):
        fop = None if adj is None else types.SimpleNamespace(builtinOptions=types.SimpleNamespace(adjY=adj))
        oi = m.q.OpInfo(op=fop, op_name=op, subgraph_op_index=0, op_quant_config=c)
        got = {}
        for name, t, inbound in (('x', tensors[0], True), ('w', tensors[1], True), ('y', tensors[2], False)):
            try: r = m.mmu._get_tensor_transformation_params_wrapper(t, inbound, oi, gi, qsv)
            except Exception as e: return f'materialising tensor {name!r} (shape {tuple(t.shape)}, adj_y={adj}) raises ' + describe(e)
            o2t = r.consumers[0] if inbound else r.producer; got[name] = o2t
            const = name == 'w'
            if list(o2t.transformations) != expected_transformations(m, s, inbound, const): return f'tensor {name!r}: transformations {o2t.transformations} differ from the mode table'
            if o2t.transformations != [T.NO_QUANTIZE]:
                p = o2t.parameters
                if p is None: return f'tensor {name!r}: transformation {o2t.transformations} without quantization parameters'
                want = (s[1] if (const and op in (m.mmu._SUPPORTED_WEIGHT_ONLY_OPS | m.mmu._SUPPORTED_DRQ_OPS)) else s[0])
                try: tt = ttype(p.num_bits)
                except Exception as e: return f'quant_params_to_tflite_type({p.num_bits}) raises ' + describe(e)
                if want is not None and p.num_bits != want[0]: return f'tensor {name!r}: parameters have {p.num_bits} bits, the config says {want[0]}'
                if const and p.quantized_data is None: return 'constant tensor without quantized data'
                if const and want is s[1] and want is not None and want[2] == 'CHANNELWISE':
                    rank = len(t.shape); qd = QDIM_SPEC.get(op.value) if adj is None else (rank - 2 if adj else rank - 1)
                    if p.quantized_dimension != qd: return f'per-channel weight of {op.value} quantized along axis {p.quantized_dimension}, the TFLite spec says {qd}'
                    if np.size(p.scale) != t.shape[qd]: return f'per-channel weight: {np.size(p.scale)} scales for {t.shape[qd]} channels'
                if not (np.all(np.isfinite(p.scale)) and np.all(p.scale > 0)): return f'tensor {name!r}: scale {p.scale}'
        if s[0] is not None and s[2] == 'INTEGER' and op.value in BIAS_OPS and adj is None:
            try:
                bp = m.uqt.symmetric_quantize_bias_tensor(bdata, got['x'].parameters, got['w'].parameters)
                if bp.num_bits != (64 if s[0][0] == 16 else 32): return f'bias quantized to {bp.num_bits} bits'
                ttype(bp.num_bits)
                r = m.mmu.get_tensor_transformation_params('b', oi, True, bp, True)
                if r.consumers[0].transformations != [T.QUANTIZE_TENSOR]: return f'bias transformations {r.consumers[0].transformations}'
            except Exception as e: return 'fused bias materialisation raises ' + describe(e)
    return None

EVAL = {'c1': eval_c1, 'c2': eval_c2, 'c3': eval_c3, 'c4': eval_c4}

def flat_inputs(inp):
    out = {k: v for k, v in inp.items() if k in ('op', 'algorithm', 'clause')}
    for k2, v in (inp.get('config') or {}).items():
        if isinstance(v, dict):
            out[k2] = 'set'
            for k3, v3 in v.items(): out[f'{k2}.{k3}'] = v3
        else: out[k2] = v
    return out
def in_class(k, flat):
    pred = k.get('class')
    if not pred: return True
    return all(a in flat and flat[a] == b for a, b in pred.items())

# ------------------------------------------------------------------------------------------------ bounded stand-in: the external runtime
# The first sentence of the property ("the interpreter prepares the model and its outputs track the float model") is about the LiteRT runtime,
# which no contract on the repository decides.  The ACCEPTED set is finite, so every accepted (operator, config, algorithm) point is pushed once
# through the REAL public pipeline on a model containing that operator and through the real interpreter.  Labelled bounded (one model, one seeded
# sample per point); never counted as proved.
E2E_MODELS = {   # operator selector -> fixtures under tests/models that contain that operator (INPUT / OUTPUT apply to any model)
    'FULLY_CONNECTED': ('single_fc_bias',), 'CONV_2D': ('conv_fc_mnist',), 'DEPTHWISE_CONV_2D': ('single_depthwise_conv2d_bias',),
    'CONV_2D_TRANSPOSE': ('single_conv2d_transpose_bias',), 'BATCH_MATMUL': ('bmm_constant_input', 'bmm'), 'EMBEDDING_LOOKUP': ('embedding_lookup',),
    'ADD': ('single_add',), 'SUB': ('single_sub',), 'MUL': ('single_mul',), 'MEAN': ('single_mean',), 'RSQRT': ('single_rsqrt',), 'TANH': ('single_tanh',),
    'GELU': ('single_gelu',), 'SPLIT': ('single_split',), 'STRIDED_SLICE': ('single_strided_slice',), 'TRANSPOSE': ('single_transpose',),
    'CONCATENATION': ('two_inputs_concatenation',), 'LOGISTIC': ('single_fc_bias_logistic',), 'SOFTMAX': ('conv_fc_mnist',), 'AVERAGE_POOL_2D': ('conv_fc_mnist',),
    'RESHAPE': ('conv_fc_mnist',), 'INPUT': ('single_fc_bias',), 'OUTPUT': ('single_fc_bias',)}
E2E_REL, E2E_STEPS, E2E_FP16_REL = 0.2, 4, 0.01
E2E_RULE = (f'max|q - f| <= {E2E_REL} * (max|f| + 1e-3) + {E2E_STEPS} * step over all outputs, q = (dequantized) output of the quantized model and f = output of the float model on the '
            f'same calibration sample; step = (max f - min f) / (2^activation_bits - 1) for static-range configs (the ideal output step of the calibrated range), 0 for '
            f'float-activation modes; float16 casting: {E2E_FP16_REL} * (max|f| + 1e-3); additionally no exception anywhere, all outputs finite, output not constant when f is not')

def e2e_model_path(name): return os.path.join(core.PKG, 'tests', 'models', name + '.tflite')

def e2e_context(m, name, op_value, seed):
    """float interpreter, two seeded samples and the float outputs on the first one, cached per (model, data kind)"""
    import zlib
    positive = op_value == 'RSQRT'
    key = ('e2e', name, positive, seed)
    if key in m.cache: return m.cache[key]
    tiu = importlib.import_module('ai_edge_quantizer.utils.tfl_interpreter_utils')
    fi = tiu.create_tfl_interpreter(e2e_model_path(name)); sigs = fi.get_signature_list()
    rng = np.random.RandomState((zlib.crc32(name.encode()) + 7919 * int(seed)) % (2 ** 31))
    if sigs:
        sig = sorted(sigs)[0]; det = fi.get_signature_runner(sig).get_input_details()
        def sample(): return {k: (rng.uniform(0.5, 2.0, size=d['shape']) if positive else rng.uniform(-1.0, 1.0, size=d['shape'])).astype(d['dtype']) for k, d in sorted(det.items())}
        samples = [sample(), sample()]
        ref = {k: np.array(v) for k, v in tiu.invoke_interpreter_signature(fi, samples[0], sig).items()}
    else:       # a model without signature (embedding_lookup.tflite): positional int32 indices, never calibrated
        sig = None; det = fi.get_input_details()
        samples = [[rng.randint(0, 3, size=d['shape']).astype(d['dtype']) for d in det]]
        tiu.invoke_interpreter_once(fi, samples[0]); ref = {str(i): np.array(fi.get_tensor(d['index'])) for i, d in enumerate(fi.get_output_details())}
    ctx = dict(tiu=tiu, sig=sig, samples=samples, ref=ref); m.cache[key] = ctx; return ctx

def eval_e2e(m, op, alg, s, name, seed=0):
    """one accepted point through Quantizer.update_quantization_recipe / calibrate / quantize and the LiteRT interpreter.  None = sound."""
    quantizer = importlib.import_module('ai_edge_quantizer.quantizer')
    try: ctx = e2e_context(m, name, op.value, seed)
    except Exception as e: return 'HARNESS: float model does not run: ' + describe(e)
    tiu = ctx['tiu']; c = build(m, s)
    try:
        qz = quantizer.Quantizer(e2e_model_path(name))
        qz.update_quantization_recipe(regex='.*', operation_name=op, op_config=c, algorithm_key=m.am.AlgorithmName(alg))
    except ValueError: return None            # refused at update time: the sound outcome for an unsupported pair (only reached when replaying on another tree)
    except Exception as e: return 'update_quantization_recipe raises ' + describe(e)
    try:
        cal = None
        if qz.need_calibration:
            if ctx['sig'] is None: return 'HARNESS: calibration needed for a model without signature'
            cal = qz.calibrate(ctx['samples'])
        res = qz.quantize(cal)
    except Exception as e: return 'ACCEPTED at update time, but calibrate/quantize fails later: ' + describe(e)
    try: qi = tiu.create_tfl_interpreter(res.quantized_model)
    except Exception as e: return 'ACCEPTED, quantized, but the interpreter cannot prepare the model: ' + describe(e)
    try:
        if ctx['sig'] is not None:
            raw = tiu.invoke_interpreter_signature(qi, ctx['samples'][0], ctx['sig']); det = qi.get_signature_runner(ctx['sig']).get_output_details()
            out = {k: (np.array(v), det[k]['quantization_parameters']) for k, v in raw.items()}
        else:
            tiu.invoke_interpreter_once(qi, ctx['samples'][0])
            out = {str(i): (np.array(qi.get_tensor(d['index'])), d['quantization_parameters']) for i, d in enumerate(qi.get_output_details())}
    except Exception as e: return 'ACCEPTED, prepared, but invoking the quantized model fails: ' + describe(e)
    if set(out) != set(ctx['ref']): return f'output names changed: {sorted(out)} vs {sorted(ctx["ref"])}'
    srq = s[0] is not None and s[2] == 'INTEGER'
    for k in sorted(out):
        v, qp = out[k]; f = ctx['ref'][k].astype(np.float64); o = v.astype(np.float64)
        if len(qp['scales']): o = (o - qp['zero_points']) * qp['scales']            # quantized model output (OUTPUT selector): dequantize
        if o.shape != f.shape: return f'output {k}: shape {o.shape} vs float {f.shape}'
        if not np.all(np.isfinite(o)): return f'output {k}: non-finite values although the float output is finite'
        mag = float(np.abs(f).max()); step = float(f.max() - f.min()) / (2 ** s[0][0] - 1) if srq else 0.0
        tol = (E2E_FP16_REL if alg == 'float_casting' else E2E_REL) * (mag + 1e-3) + E2E_STEPS * step
        err = float(np.abs(o - f).max())
        if err > tol: return f'output {k}: max |quantized - float| = {err:.6g} > tolerance {tol:.6g} (max|float| = {mag:.6g}; first values float {f.ravel()[:3]}, quantized {o.ravel()[:3]})'
        if o.size > 1 and float(f.max() - f.min()) > 0 and float(o.max() - o.min()) == 0: return f'output {k}: constant {o.ravel()[0]} although the float output varies'
    return None

def runtime_standin(rep, m, fns, settle):
    S = specs(m.q); seed = int(rep.seed or 0); cases = execs = nfail = 0; used = {}; uncovered = []; t_all = time.time()
    for op in operators(m.q):
        for alg in ALGS:
            acc = [s for s in S if specific_add(m, op, alg, s)[0] == 'accepted']
            if not acc: continue
            names = [n for n in E2E_MODELS.get(op.value, ()) if os.path.exists(e2e_model_path(n))]
            if not names: uncovered.append(dict(op=op.value, algorithm=alg, accepted_points=len(acc))); continue
            used[op.value] = [n + '.tflite' for n in names]
            t0 = time.time(); fails = []
            for s in acc:
                cases += 1
                for name in names:
                    execs += 1; f = eval_e2e(m, op, alg, s, name, seed)
                    if f: fails.append((dict(kind='e2e', clause='e2e', op=op.value, algorithm=alg, config=enc(s), model=name, seed=seed), f)); break
            nfail += len(fails)
            if any(t.startswith('HARNESS') for _, t in fails): rep.errors.append(f'runtime stand-in harness failure for {op.value}: {[t for _, t in fails if t.startswith("HARNESS")][0]}'); continue
            settle(f'C13/quantizer.Quantizer.quantize/runtime-sound.{op.value}.{alg}', fns['Q.quantize'], fails, time.time() - t0,
                   f'every config accepted for ({op.value}, {alg}) yields, through the public pipeline on {names}, a model the LiteRT interpreter prepares and invokes, with finite outputs tracking the float model: {E2E_RULE}',
                   len(acc), backend='bounded-native', bounded=True)
    rep.add_bounded('Quantizer.update_quantization_recipe -> calibrate -> quantize -> LiteRT interpreter (allocate + invoke) for every ACCEPTED (operator, config, algorithm) point',
                    f'all {cases} accepted points of the lattice, one fixture model per operator (BATCH_MATMUL: two), 2 seeded calibration samples (seed {seed}), compared on the first; {execs} pipeline executions',
                    cases, nfail, 'tolerance: ' + E2E_RULE)
    rep.extra['runtime_standin'] = dict(accepted_points_executed=cases, pipeline_executions=execs, failures=nfail, model_per_operator=used, operators_not_covered=uncovered,
                                        tolerance=E2E_RULE, seed=seed, seconds=round(time.time() - t_all, 1),
                                        note='CUSTOM_OP has no accepted point; the "*" selector lets through exactly the accepted specific pairs (clause c2), which are the points executed here')
    return cases, nfail

def run_case(inp, m=None):
    """re-executes one recorded (clause, operator, algorithm, config) on the real code -> (fails, observed)"""
    m = m or load_all()
    try:
        if inp.get('kind') == 'tflite_type':
            f = check_type_table(m, inp['num_bits']); return (f is not None), (f or 'ok')
        s = dec(inp['config']); alg = inp['algorithm']; cl = inp['clause']
        if cl == 'e2e':
            f = eval_e2e(m, m.q.TFLOperationName(inp['op']), alg, s, inp['model'], inp.get('seed', 0)); return (f is not None), (f or 'the accepted pair runs and tracks the float model')
        if cl == 'c2u': f = eval_c2u(m, alg, s)
        else: f = EVAL[cl](m, m.q.TFLOperationName(inp['op']), alg, s)
        return (f is not None), (f or 'clause holds for this input')
    except Exception as e: return True, 'replay raised ' + describe(e)

def check_type_table(m, bits):
    want = {4: 'INT4', 8: 'INT8', 16: 'INT16', 32: 'INT32', 64: 'INT64'}[bits]
    try: got = m.qten.quant_params_to_tflite_type(bits)
    except Exception as e: return 'raises ' + describe(e)
    return None if got == getattr(m.schema.TensorType, want) else f'quant_params_to_tflite_type({bits}) = {got}, expected TensorType.{want}'

# ------------------------------------------------------------------------------------------------ obligations
def clause_text(cl, op, alg, n):
    return {'c1': f"add_quantization_config('.*', {op}, cfg, {alg}) returns or raises ValueError (no other exception; recipe unchanged on refusal) for all {n} configs of the lattice",
            'c2': f"after add('.*', '*', cfg, {alg}): get_quantization_configs({op}, scope) never raises; = (alg, cfg) iff the specific update accepts, else (no_quantize, default) - all {n} configs",
            'c3': f"every config accepted for ({op}, {alg}) materialises: mode table, weight/activation/output/bias parameters incl. quantized-dimension lookup, tflite dtype, registered functions",
            'c4': f"({op}, {alg}): accepted <=> config in policy (registered policy and independently unrolled JSON text / fp16 weight-only predicate) for all {n} configs"}[cl]

def evaluate(m, ops=None, algs=ALGS, clauses=('c1', 'c2', 'c3', 'c4')):
    """-> list of (oid, clause, op, alg, fails [(inputs, text)], ncases, seconds), deterministic order"""
    S = specs(m.q); out = []
    for op in (ops or operators(m.q)):
        for alg in algs:
            for cl in clauses:
                t0 = time.time(); fails = []
                for s in S:
                    f = EVAL[cl](m, op, alg, s)
                    if f: fails.append((dict(kind='pair', clause=cl, op=op.value, algorithm=alg, config=enc(s)), f))
                base = CL[cl][alg] if cl == 'c3' else CL[cl]
                out.append((f'{base}.{op.value}.{alg}', cl, op, alg, fails, len(S), time.time() - t0))
    return out

def fn_for(fns, cl, alg):
    return {'c1': fns['RM.add'], 'c2': fns['RM.resolve'], 'c4': fns['AMA.check'], 'c3': fns['MMU.gtt'] if alg == 'min_max_uniform_quantize' else fns['FC.check']}[cl]

CANARIES = [
    ('min_max_quantize_utils.check_if_valid_op_config: membership test inverted', 'mmu', 'elif op_quant_config not in config_check_policy[op_name]:', 'elif op_quant_config in config_check_policy[op_name]:', ('c4',), 'min_max_uniform_quantize'),
    ('min_max_quantize_utils.check_if_valid_op_config: membership test skipped', 'mmu', '  if not check_passed:\n    raise ValueError(', '  if False:\n    raise ValueError(', ('c4', 'c3'), 'min_max_uniform_quantize'),
    ('min_max_quantize_utils.get_tensor_transformations: SRQ output becomes [NO_QUANTIZE]', 'mmu', '      transformations = [_QuantTransformation.ADD_DEQUANTIZE]\n  # Check if DRQ.',
     '      transformations = [_QuantTransformation.NO_QUANTIZE]\n  # Check if DRQ.', ('c3',), 'min_max_uniform_quantize'),
    ('recipe_manager.get_quantization_configs: unsupported "*" rule no longer skipped', 'rm', '            except ValueError:\n              continue  # Skip the recipe if it is not supported.',
     '            except ValueError:\n              pass', ('c2',), 'min_max_uniform_quantize'),
    ('float_casting.check_op_quantization_config: accepts 8-bit instead of 16-bit float weights', 'fc', 'op_quant_config.weight_tensor_config.num_bits != 16', 'op_quant_config.weight_tensor_config.num_bits != 8',
     ('c4', 'c3'), 'float_casting'),
    ('tfl_flatbuffer_utils.TFL_OP_TO_WEIGHT_QUANTIZED_DIM loses CONV_2D', 'tfu', '    _TFLOpName.CONV_2D: 0,\n', '', ('c3',), 'min_max_uniform_quantize'),
    ('tfl_flatbuffer_utils.TFL_OP_TO_WEIGHT_QUANTIZED_DIM: depthwise axis 3 -> 0', 'tfu', '    _TFLOpName.DEPTHWISE_CONV_2D: 3,', '    _TFLOpName.DEPTHWISE_CONV_2D: 0,', ('c3',), 'min_max_uniform_quantize'),
]
REL = {'mmu': MMU, 'rm': RM, 'fc': FC, 'tfu': TFU}

def run_canaries(rep, m, proved_ids):
    N = m.q.TFLOperationName
    for name, which, a, b, clauses, alg in CANARIES:
        src = core.read_source(REL[which])
        if a not in src: rep.canary(name, False, 'mutation site not found (stale canary)'); continue
        try: mut = _exec_module(which + '_mutant', REL[which], src.replace(a, b, 1))
        except Exception as e: rep.canary(name, True, f'mutant rejected while loading: {describe(e)}'); continue
        ops = [N.FULLY_CONNECTED, N.ADD] if which != 'tfu' else [N.CONV_2D, N.DEPTHWISE_CONV_2D]
        with contextlib.ExitStack() as st:
            if which == 'mmu':
                st.enter_context(swapped(m.nmm, 'utils', mut)); mm = m.variant(mmu=mut)            # the validation function reaches the utils through this module global
            elif which == 'rm': mm = m.variant(rm=mut)
            elif which == 'tfu':
                st.enter_context(swapped(m.mmu, 'tfl_flatbuffer_utils', mut)); mm = m.variant(tfu=mut)
            else:
                reg = m.am._alg_manager_instance._config_check_registry; key = m.am.AlgorithmName.FLOAT_CASTING
                old = reg[key]; reg[key] = mut.check_op_quantization_config; st.callback(lambda: reg.__setitem__(key, old)); mm = m.variant(fc=mut)
            try: res = evaluate(mm, ops=ops, algs=(alg,), clauses=clauses)
            except Exception as e: rep.canary(name, True, f'mutant rejected while executing: {describe(e)}'); continue
        bad = [(oid, fails[0][1][:100]) for (oid, cl, op, al, fails, n, dt) in res if fails and oid in proved_ids]
        rep.canary(name, bool(bad), f'{len(bad)} of {len(res)} re-run obligations (all proved on the real source) fail on the mutant; e.g. {bad[:1]}')

def run(rep):
    m = load_all(); q = m.q
    fns = {'RM.add': rep.fn(core.Fn(RM, 'RecipeManager.add_quantization_config')), 'RM.resolve': rep.fn(core.Fn(RM, 'RecipeManager.get_quantization_configs')),
           'AMA.check': rep.fn(core.Fn(AMA, 'AlgorithmManagerApi.check_op_quantization_config')), 'AMA.reg': rep.fn(core.Fn(AMA, 'AlgorithmManagerApi.is_op_registered')),
           'NMM.check': rep.fn(core.Fn(NMM, 'check_op_quantization_config')), 'FC.check': rep.fn(core.Fn(FC, 'check_op_quantization_config')),
           'MMU.valid': rep.fn(core.Fn(MMU, 'check_if_valid_op_config')), 'MMU.sub': rep.fn(core.Fn(MMU, 'check_subchannel_config')),
           'MMU.gtt': rep.fn(core.Fn(MMU, 'get_tensor_transformations')), 'MMU.wrap': rep.fn(core.Fn(MMU, '_get_tensor_transformation_params_wrapper')),
           'MMU.init': rep.fn(core.Fn(MMU, 'init_tensor_min_max')), 'MMU.qp': rep.fn(core.Fn(MMU, '_get_tensor_quant_params')), 'MMU.rd': rep.fn(core.Fn(MMU, '_get_reduce_dims')),
           'DP.unroll': rep.fn(core.Fn(DP, '_unroll_json_config')), 'DP.update': rep.fn(core.Fn(DP, 'update_default_config_policy')),
           'QT.post': rep.fn(core.Fn(QT, 'OpQuantizationConfig.__post_init__')), 'QTEN.type': rep.fn(core.Fn(QTEN, 'quant_params_to_tflite_type')),
           'QTEN.nl': rep.fn(core.Fn(QTEN, 'nonlinear_quant_params_to_tflite_type')), 'UQT.bias': rep.fn(core.Fn(UQT, 'symmetric_quantize_bias_tensor')),
           'Q.update': rep.fn(core.Fn('quantizer.py', 'Quantizer.update_quantization_recipe')), 'Q.calibrate': rep.fn(core.Fn('quantizer.py', 'Quantizer.calibrate')),
           'Q.quantize': rep.fn(core.Fn('quantizer.py', 'Quantizer.quantize'))}
    rep.trust('CPython executes the real functions on every point of the finite lattice; dataclass __eq__ (policy membership), enum and numpy are the real library code')
    rep.trust('the module-level registrations of algorithm_manager.py (operators, validation functions, DEFAULT_CONFIG_CHECK_POLICY) are the state the API runs with; '
              'Quantizer.load_config_policy (a user-supplied policy) is outside the quantifier')
    rep.trust('materialisation is exercised on one representative constant weight per operator (rank and shape of that operator), one runtime input and one output with calibrated min/max; '
              'the control flow of the exercised functions depends on the config, operator name and tensor rank only')
    rep.assume('NOT decided by a contract: "the interpreter prepares the model and its outputs track the float model" is the external LiteRT runtime; the obligations decide '
               'soundness of an accepted pair up to the point where tensor parameters, transformations and tflite dtypes are produced, and a BOUNDED stand-in runs every accepted point '
               'once through the public pipeline and the real interpreter (one fixture model per operator, one seeded sample)')
    rep.assume('skip_checks=True configs are outside this property by its statement; block sizes are {0, 32}; activation configs are TENSORWISE INT as in the quantifier')
    if m.am._alg_manager_instance._config_check_policy_registry.get(m.am.AlgorithmName.MIN_MAX_UNIFORM_QUANT) is not m.dp.DEFAULT_CONFIG_CHECK_POLICY:
        rep.errors.append('the policy registered for min_max_uniform_quantize is not default_policy.DEFAULT_CONFIG_CHECK_POLICY'); return
    S = specs(q); OPS = operators(q)
    kf_seen = {}
    def settle(oid, fn, fails, dt, clause, ncases, backend='exhaustive-native', bounded=False):
        if not fails:
            if not bounded: rep.add(core.Ob(oid, fn, backend, core.PROVED, dt, clause=clause))      # bounded stand-ins are never counted as proved
            return core.PROVED
        k = rep.finding_for(oid); rest = fails
        if k is not None:
            rest = []
            for inp, txt in fails:
                if in_class(k, flat_inputs(inp)):
                    ent = kf_seen.setdefault(k['id'], [k, 0, None])
                    if ent[2] is None:
                        fl, obs = run_case(inp, m); ent[2] = dict(confirmed=fl, inputs=inp, observed=obs)      # the witness of the class is re-executed natively
                    if ent[2]['confirmed']: ent[1] += 1; continue
                rest.append((inp, txt))
            if not rest: return 'known'
            oid += '[excluding:' + k['id'] + ']'; backend += '+class-exclusion'
        inp, txt = rest[0]; fl, obs = run_case(inp, m)
        ob = core.Ob(oid, fn, backend, core.REFUTED, dt, detail=f'{len(rest)} of {ncases} configs violate the clause; first: {skey(dec(inp["config"])) if "config" in inp else inp}: {txt}', clause=clause)
        ob.replay = dict(confirmed=bool(fl), inputs=inp, observed=obs, failing_configs=[skey(dec(i['config'])) for i, _ in rest[:40] if 'config' in i]); rep.add(ob); return core.REFUTED
    # ---- '*' never raises at update time
    for alg in ALGS:
        t0 = time.time(); fails = [(dict(kind='pair', clause='c2u', op='*', algorithm=alg, config=enc(s)), f) for s in S for f in [eval_c2u(m, alg, s)] if f]
        settle(f"{CL['c2u']}.{alg}", fns['RM.add'], fails, time.time() - t0, f"add_quantization_config('.*', '*', cfg, {alg}) never raises, all {len(S)} configs", len(S))
    # ---- per (operator, algorithm, clause)
    status = {}
    for (oid, cl, op, alg, fails, n, dt) in evaluate(m):
        status[oid] = settle(oid, fn_for(fns, cl, alg), fails, dt, clause_text(cl, op.value, alg, n), n)
    # ---- tflite dtype table for every width that can be produced (weights 4/8/16, activations 8/16, bias 32/64)
    for bits in (4, 8, 16, 32, 64):
        t0 = time.time(); f = check_type_table(m, bits)
        settle(f'C13/quantize_tensor.quant_params_to_tflite_type/defined.b{bits}', fns['QTEN.type'], [(dict(kind='tflite_type', num_bits=bits), f)] if f else [], time.time() - t0,
               f'quant_params_to_tflite_type({bits}) is defined and is the {bits}-bit integer type', 1)
    # ---- bounded stand-in for the external runtime: every accepted point through the public pipeline and the interpreter
    e2e_cases, e2e_fail = runtime_standin(rep, m, fns, settle)
    rep.cover('runtime stand-in executed accepted points', e2e_cases > 0)
    for kid, (k, n, rp) in kf_seen.items():
        if n: rep.known_finding(k, True); rep.notes.append(f'known finding {kid}: {n} failing config(s) inside its class; witness re-executed natively: {str(rp.get("observed"))[:160]}')
    for k in rep.active_findings():
        if not kf_seen.get(k['id'], [0, 0])[1]:
            w = k.get('witness')
            rep.known_finding(k, run_case(w, m)[0] if isinstance(w, dict) and 'clause' in w else False)
    # ---- lattice description and vacuity guards
    acc = {alg: sum(1 for op in OPS for s in S if specific_add(m, op, alg, s)[0] == 'accepted') for alg in ALGS}
    ref_c = sum(1 for s in S if build(m, s) is None)
    per_op = {op.value: {alg: sum(1 for s in S if specific_add(m, op, alg, s)[0] == 'accepted') for alg in ALGS} for op in OPS}
    rep.cover('min_max accepts some pair', acc['min_max_uniform_quantize'] > 0); rep.cover('float_casting accepts some pair', acc['float_casting'] > 0)
    rep.cover('some config refused at construction', ref_c > 0); rep.cover('some constructible config refused at update', any(specific_add(m, q.TFLOperationName.ADD, 'min_max_uniform_quantize', s)[0] == 'refused' for s in S))
    rep.cover('reference policy non-empty', len(reference_policy(m)) > 0)
    rep.extra['exhaustive'] = True
    rep.extra['lattice'] = dict(operators=[o.value for o in OPS], n_operators=len(OPS), activation=['None'] + [f'{b}-bit {"sym" if s_ else "asym"} TENSORWISE INT' for b, s_ in ACTS[1:]],
                                weight='None | {4,8,16} bit x {sym,asym} x {INT,FLOAT} x {TENSORWISE, CHANNELWISE, BLOCKWISE with block_size 0 and 32}', n_weight=len(weights(q)),
                                compute_precision=[c.value for c in q.ComputePrecision], explicit_dequantize=[False, True], algorithms=list(ALGS), skip_checks=False,
                                configs=len(S), configs_refused_at_construction=ref_c, points=len(S) * len(OPS) * len(ALGS), accepted_points=acc, accepted_per_operator=per_op)
    rep.extra['method'] = 'exhaustive native execution of the real functions over the full finite lattice of the quantifier: a complete decision of clauses c1-c4, not a sample'
    run_canaries(rep, m, {oid for oid, st in status.items() if st == core.PROVED})

def replay(payload):
    inp = payload.get('inputs') or {}
    print('replaying', payload.get('obligation'), json.dumps(inp)[:600])
    fails, obs = run_case(inp)
    print('observed:', obs)
    return 1 if fails else 0
