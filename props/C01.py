"""C01 — quantize() returns a well-formed, runtime-loadable model or raises (structural clauses)."""
from vlib import core
from props import graphcommon as gc
LEVEL = 'proof'
def run(rep):
    gc.small_carriers(rep, 'C01'); gc.insert_obligations(rep, 'C01'); gc.performer_obligations(rep, 'C01'); gc.names_obligations(rep, 'C01')
    gc.bounded_insert(rep); gc.e2e_standin(rep, 'C01', sampled3=(300 if rep.tier == 'thorough' else 0))
    gc.canaries(rep); gc.performer_canaries(rep)
    rep.assume('LiteRT allocate_tensors/invoke succeed on a structurally well-formed, dtype-consistent model (external C++ runtime; exercised only by the bounded end-to-end stand-in)')
    rep.assume('generator -> performer composition (InstValid / laminar instruction lists, _update_instructions, _apply_transformations, transform_graph loops) is covered by the bounded end-to-end stand-in only')
    rep.trust('flatbuffer object-API classes are plain attribute bags; numpy int32 index arrays behave as Python int lists for indexing, len, `in`, item assignment')
    rep.trust('flatbuffer serialisation / parsing is faithful (TensorFlow flatbuffer_utils)')
def replay(payload):
    from replay import graph_native
    inp = payload.get('inputs', {})
    if 'spec' in inp:
        from bounded import e2e
        f = e2e.run_case((inp['spec'], inp['modes'])); print(f); return 1 if any(x.startswith('C0') for x in f) else 0
    if 'orig_map' in inp: r = graph_native.replay_apply_single(inp)
    else: r = graph_native.replay_insert(inp.get('kind', 'dequant'), inp)
    print(r); return 1 if r.get('confirmed') else 0
