"""C01 — quantize() returns a well-formed, runtime-loadable model or raises (structural clauses)."""
from vlib import core
from props import graphcommon as gc
LEVEL = 'proof'
def litert_abort_finding(rep):
    """the listed LiteRT-abort finding: its witness is replayed in a CHILD process (an abort would kill the check itself)"""
    import json, subprocess, sys, os
    k = rep.finding_for('C01/bounded.litert/allocate-and-invoke-without-abort')
    if k is None: return
    w = k['witness']
    code = ("import json,sys; from replay import c08_models as cm; w=json.loads(sys.argv[1]); "
            "r=cm.run_pipeline(w['recipe'], w['spec'], w.get('n_samples',1), w.get('seed',0), interp=True); print('RESULT', json.dumps(r))")
    pr = subprocess.run([os.path.join(core.VERIF, 'vrun'), '-c', code, json.dumps(w)], capture_output=True, text=True, timeout=300)
    aborted = pr.returncode < 0 or pr.returncode in (134, 139)
    failed = aborted or ('RESULT' in pr.stdout and '"status": "ok"' not in pr.stdout)
    rep.known_finding(k, failed)
    rep.add_bounded('LiteRT allocate+invoke on the listed degenerate-range witness (child process)', 'one witness model, replayed every run', 1, 1 if failed else 0, note=f'child exit {pr.returncode}')

def run(rep):
    litert_abort_finding(rep)
    gc.small_carriers(rep, 'C01'); gc.insert_obligations(rep, 'C01'); gc.performer_obligations(rep, 'C01'); gc.names_obligations(rep, 'C01'); gc.signature_obligations(rep, 'C01'); gc.tensorinfo_obligations(rep, 'C01'); gc.vertical_obligations(rep, 'C01'); gc.produce_obligations(rep, 'C01'); gc.compose_obligations(rep, 'C01')
    gc.bounded_insert(rep); gc.e2e_standin(rep, 'C01', sampled3=(300 if rep.tier == 'thorough' else 0))
    gc.canaries(rep); gc.performer_canaries(rep)
    rep.assume('LiteRT allocate_tensors/invoke succeed on a structurally well-formed, dtype-consistent model (external C++ runtime; exercised only by the bounded end-to-end stand-in)')
    rep.assume('generator: WHAT consumer grouping (_group_consumer_transformations) computes is not under a contract: the two builders take "every group is a non-empty set of positions of param.consumers" as precondition (its frame and list-valued return are discharged); laminarity of instruction lists and LiteRT are covered by the bounded end-to-end stand-in only')
    rep.assume('typing: a Python list object is never a TransformationInst record (used to discharge the distinctness preconditions of _apply_vertical_optimization at its call site)')
    rep.trust('flatbuffer object-API classes are plain attribute bags; numpy int32 index arrays behave as Python int lists for indexing, len, `in`, item assignment')
    rep.trust('flatbuffer serialisation / parsing is faithful (TensorFlow flatbuffer_utils)')
def replay(payload):
    from replay import graph_native
    inp = payload.get('inputs', {})
    if 'spec' in inp:
        from bounded import e2e
        f = e2e.run_case((inp['spec'], inp['modes'])); print(f); return 1 if any(x.startswith('C0') for x in f) else 0
    if 'orig_map' in inp: r = graph_native.replay_apply_single(inp)
    else: r = graph_native.replay_insert(inp.get('kind', 'dequant'), inp)
    print(r); return 1 if r.get('confirmed') else 0
