"""C01 — quantize() returns a well-formed, runtime-loadable model or raises (structural clauses)."""
from vlib import core
from props import graphcommon as gc
LEVEL = 'proof'
def run(rep):
    gc.small_carriers(rep, 'C01'); gc.insert_obligations(rep, 'C01')
    fails, first = gc.bounded_insert(rep)
    gc.canaries(rep)
    rep.assume('LiteRT allocate_tensors/invoke succeed on a structurally well-formed, dtype-consistent model (external C++ runtime, unchecked)')
    rep.trust('flatbuffer object-API classes are plain attribute bags; numpy int32 index arrays behave as Python int lists for indexing, len, `in`, item assignment')
def replay(payload):
    from replay import graph_native
    r = graph_native.replay_insert(payload['inputs'].get('kind', 'dequant'), payload['inputs']); print(r); return 1 if r['confirmed'] else 0
