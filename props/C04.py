"""C04 — quantization parameters equal the TFLite-spec reference for the statistics and the config.

Functions under contract
  uniform_quantize_tensor.symmetric_quantize_bias_tensor (tensor_zp_scale_from_min_max: proved against the reference in C17, cited)
  min_max_quantize_utils._get_tensor_quant_params, _get_reduce_dims, _get_bmm_weight_quantized_dim, init_tensor_min_max,
      _materialize_standard_op_with_same_as_input_scale, _materialize_standard_op_with_same_as_output_scale,
      materialize_op_with_output_activation_constraint, _get_min_max_from_quant_params
  naive_min_max_quantize._materialize_bias_for_conv_ops, materialize_softmax_and_logistic, materialize_tanh and the same-scale
      materialize_* functions reached through the REAL registration table of algorithm_manager.py
  tfl_flatbuffer_utils.TFL_OP_TO_WEIGHT_QUANTIZED_DIM, default_policy.DEFAULT_CONFIG_CHECK_POLICY

How obligations are discharged
  * z3 / cvc5 (vlib/symnp): CPython executes the real functions on symbolic statistics / scales / bias; the resulting terms are
    compared with the reference formulas written in contracts/c04_common.py for ALL real inputs.
  * cpython-exec: structural facts (num_bits, symmetry, quantized_dimension, shapes, object identity of parameter objects)
    read off a run of the real function on SYMBOLIC statistics: the front end raises as soon as control flow or a structural
    result depends on a data value, so the fact holds for every value of the statistics.
  * exhaustive-native: the real function executed over a complete finite table (op x bits x symmetry x granularity x rank ...).
Reference values (fixed ranges, per-op quantized dimension, same-scale op lists) are written in contracts/c04_common.py from the
TFLite quantization spec / the property text, never read from the code under test."""
import fractions, importlib, itertools, time
import numpy as np, z3
from vlib import core, symnp
from vlib.symnp import SymArray
from contracts import c04_common as cc, c04_minigraph as mg
from contracts.c04_common import G, F32

LEVEL = 'proof'
FNS = {
    'uniform_quantize_tensor.symmetric_quantize_bias_tensor': (cc.UQ, 'symmetric_quantize_bias_tensor'),
    'uniform_quantize_tensor.tensor_zp_scale_from_min_max': (cc.UQ, 'tensor_zp_scale_from_min_max'),
    'min_max_quantize_utils._get_tensor_quant_params': (cc.UTILS, '_get_tensor_quant_params'),
    'min_max_quantize_utils._get_reduce_dims': (cc.UTILS, '_get_reduce_dims'),
    'min_max_quantize_utils._get_bmm_weight_quantized_dim': (cc.UTILS, '_get_bmm_weight_quantized_dim'),
    'min_max_quantize_utils.init_tensor_min_max': (cc.UTILS, 'init_tensor_min_max'),
    'min_max_quantize_utils._get_tensor_transformation_params_wrapper': (cc.UTILS, '_get_tensor_transformation_params_wrapper'),
    'min_max_quantize_utils._materialize_standard_op_with_same_as_input_scale': (cc.UTILS, '_materialize_standard_op_with_same_as_input_scale'),
    'min_max_quantize_utils._materialize_standard_op_with_same_as_output_scale': (cc.UTILS, '_materialize_standard_op_with_same_as_output_scale'),
    'min_max_quantize_utils.materialize_standard_op': (cc.UTILS, 'materialize_standard_op'),
    'min_max_quantize_utils.materialize_op_with_output_activation_constraint': (cc.UTILS, 'materialize_op_with_output_activation_constraint'),
    'min_max_quantize_utils._get_min_max_from_quant_params': (cc.UTILS, '_get_min_max_from_quant_params'),
    'naive_min_max_quantize._materialize_bias_for_conv_ops': (cc.NMM, '_materialize_bias_for_conv_ops'),
    'naive_min_max_quantize.materialize_softmax_and_logistic': (cc.NMM, 'materialize_softmax_and_logistic'),
    'naive_min_max_quantize.materialize_tanh': (cc.NMM, 'materialize_tanh'),
    'default_policy.update_default_config_policy': (cc.DP, 'update_default_config_policy'),
}
for _f in ('materialize_reshape', 'materialize_transpose', 'materialize_split', 'materialize_strided_slice', 'materialize_average_pool_2d', 'materialize_concatenation',
           'materialize_fc_conv', 'materialize_conv2d_transpose'):
    FNS['naive_min_max_quantize.' + _f] = (cc.NMM, _f)

def srq(qt, abits, asym, wbits=8, gran='CHANNELWISE'):
    T = qt.TensorQuantizationConfig
    return qt.OpQuantizationConfig(activation_tensor_config=T(abits, asym), weight_tensor_config=T(wbits, True, qt.QuantGranularity(gran)), compute_precision=qt.ComputePrecision.INTEGER)
ACT_CONFIGS = ((8, False), (8, True), (16, True))      # the activation configs the default policy admits (bits, symmetric)

def sym_qsv(m, ids):
    """symbolic statistics (one arbitrary real min / max per tensor) in the shape calibration produces: keepdims over all axes"""
    return {m.names[i]: {'min': SymArray(z3.Real(f'mn_{m.names[i]}'), F32, (1,) * len(m.tensors[i].shape)),
                         'max': SymArray(z3.Real(f'mx_{m.names[i]}'), F32, (1,) * len(m.tensors[i].shape))} for i in ids}
def stats_pre(m, ids): return [z3.Real(f'mn_{m.names[i]}') <= z3.Real(f'mx_{m.names[i]}') for i in ids]
def by_name(res): return {r.tensor_name: r for r in res}
def scale_goal(p, name, bits, sym):
    s_ref, _, _ = cc.ref_params(z3.Real(f'mn_{name}'), z3.Real(f'mx_{name}'), bits, sym)
    return p.scale.term == s_ref

# ------------------------------------------------------------------------------------------------ (c) fixed output ranges
def fam_fixed(M, reg):
    goals = []; qt = M.qtyping
    for opn, (bits, asym) in itertools.product(('SOFTMAX', 'LOGISTIC', 'TANH'), ACT_CONFIGS):
        Fm = 'naive_min_max_quantize.' + reg[opn].__name__
        tag = f'{opn}.a{bits}.{"sym" if asym else "asym"}'; s_want, z_want = cc.FIXED_REF[(opn, bits)]; qmin, qmax = cc.qrange(bits)
        m = mg.build(opn); oi, gi = mg.infos(m, qt, srq(qt, bits, asym)); inputs = dict(family='fixed', op=opn, bits=bits, act_symmetric=asym)
        with cc.guarded(goals, tag, Fm, inputs):
            with symnp.session() as cx:
                qsv = sym_qsv(m, m.ins + m.outs)
                res = by_name(reg[opn](oi, gi, qsv)); out = res['y'].producer; p = out.parameters
                ok = (isinstance(p, qt.UniformQuantParams) and isinstance(p.scale, np.ndarray) and np.size(p.scale) == 1 and np.size(p.zero_point) == 1
                      and cc.fr(np.ravel(p.scale)[0]) == s_want and int(np.ravel(p.zero_point)[0]) == z_want and p.num_bits == bits and p.quantized_dimension is None
                      and out.transformations == [qt.QuantTransformation.ADD_DEQUANTIZE])
                obs = dict(scale=str(getattr(p, 'scale', None)), zero_point=str(getattr(p, 'zero_point', None)), num_bits=getattr(p, 'num_bits', None), qdim=getattr(p, 'quantized_dimension', None))
                goals.append(G(f'{tag}.output-scale-{s_want.numerator}/{s_want.denominator}-zero-point-{z_want}', Fm, ok=bool(ok), backend='cpython-exec', inputs=inputs, observed=obs,
                               clause=f'for every calibrated min/max: output scale == {s_want} (one element), zero point == {z_want}, num_bits == {bits}, quantized_dimension is None'))
                # the statistics downstream ops will see are the fixed range itself
                s, z = s_want, z_want; hi = (qmax - z) * s; lo = -hi if asym else (qmin - z) * s
                st = qsv['y']; got = (st['min'], st['max'])
                ok2 = all(not isinstance(v, SymArray) and np.size(v) == 1 for v in got) and cc.fr(np.ravel(got[0])[0]) == lo and cc.fr(np.ravel(got[1])[0]) == hi
                goals.append(G(f'{tag}.output-statistics-overwritten-with-the-fixed-range', 'min_max_quantize_utils.materialize_op_with_output_activation_constraint', ok=bool(ok2), backend='cpython-exec', inputs=inputs,
                               observed=str(got), clause=f'tensor_name_to_qsv[output] == (min {lo}, max {hi}) = dequantized ends of the fixed range (-max when the activation config is symmetric)'))
                pin = res['x'].consumers[0].parameters
                goals.append(G(f'{tag}.input-parameters-from-its-own-statistics', 'min_max_quantize_utils.materialize_op_with_output_activation_constraint', stats_pre(m, m.ins) + cx.hyps(),
                               z3.And(scale_goal(pin, 'x', bits, asym), z3.BoolVal(pin.num_bits == bits and pin.symmetric is asym and pin.quantized_dimension is None)), inputs=inputs,
                               replay=lambda model, b=bits, a=asym: cc.native_params(M, dict(bits=b, sym=a, gran='TENSORWISE', content=False), {'mn': model.get('mn_x'), 'mx': model.get('mx_x')})))
    # _get_min_max_from_quant_params for ARBITRARY parameters
    Fq = 'min_max_quantize_utils._get_min_max_from_quant_params'; s, = z3.Reals('s'); z = z3.Int('zp')
    for bits, sym in itertools.product((8, 16), (True, False)):
        qmin, qmax = cc.qrange(bits)
        with symnp.session() as cx:
            p = qt.UniformQuantParams(bits, None, SymArray(s, F32, ()), SymArray(z, cc.int_dtype(bits), ()), sym)
            lo, hi = M.utils._get_min_max_from_quant_params(bits, sym, p)
            H = [s > 0, z >= qmin, z <= qmax] + cx.hyps(); zr = z3.ToReal(z)
            goals.append(G(f'b{bits}.{"sym" if sym else "asym"}.max-is-(qmax-zp)*scale', Fq, H, hi.term == (qmax - zr) * s))
            goals.append(G(f'b{bits}.{"sym" if sym else "asym"}.min-is-' + ('-max' if sym else '(qmin-zp)*scale'), Fq, H, lo.term == (-(qmax - zr) * s if sym else (qmin - zr) * s)))
    return goals

# ------------------------------------------------------------------------------------------------ (d) same-scale ops
def arr_same(a, b):
    """same array value: the same object, symbolic arrays with the identical term / dtype / shape, or equal concrete arrays"""
    if a is b: return True
    if isinstance(a, SymArray) or isinstance(b, SymArray):
        return isinstance(a, SymArray) and isinstance(b, SymArray) and a.term.eq(b.term) and a.dtype == b.dtype and a.shape == b.shape
    a, b = np.asarray(a), np.asarray(b)
    return a.shape == b.shape and a.dtype == b.dtype and bool(np.array_equal(a, b))
def same_params(a, b):
    """'share the parameters' as the property means it: equal (scale, zero_point, num_bits, symmetric, quantized_dimension); quantized_data
    belongs to each tensor and is not part of the comparison"""
    if a is None or b is None: return False
    return a is b or (type(a) is type(b) and a.num_bits == b.num_bits and a.symmetric == b.symmetric and a.quantized_dimension == b.quantized_dimension
                      and arr_same(a.scale, b.scale) and arr_same(a.zero_point, b.zero_point))

def classify(res, m):
    """behavioural classification of one materialization: 'input' = every output carries the parameters (scale, zero point, bits,
    symmetry, quantized dimension) of the (single) float activation input; 'output' = every float input carries those of the single
    output; else 'none' (with symbolic statistics two tensors have equal parameters only if they were derived from the same statistics)"""
    ins = [r for r in res if r.consumers and r.consumers[0].parameters is not None]
    outs = [r for r in res if r.producer is not None and r.producer.parameters is not None]
    if outs and len(ins) == 1 and all(same_params(o.producer.parameters, ins[0].consumers[0].parameters) for o in outs): return 'input'
    if len(outs) == 1 and ins and all(same_params(i.consumers[0].parameters, outs[0].producer.parameters) for i in ins): return 'output'
    return 'none'

def fam_same_scale(M, reg):
    goals = []; qt = M.qtyping
    registered = [o for o in reg if o not in ('INPUT', 'OUTPUT')]
    want = {o: ('input' if o in cc.SAME_AS_INPUT_REF else 'output' if o in cc.SAME_AS_OUTPUT_REF else 'none') for o in registered}
    missing = sorted((cc.SAME_AS_INPUT_REF | cc.SAME_AS_OUTPUT_REF) - set(registered))
    goals.append(G('registration.every-same-scale-op-of-the-property-is-registered', 'naive_min_max_quantize.materialize_reshape', ok=not missing, inputs=dict(family='same-scale'), observed=dict(missing=missing),
                   clause='reshape/transpose/split/strided-slice/average-pool/concatenation are registered for min_max_uniform_quantize'))
    for opn in registered:
        Fm = 'naive_min_max_quantize.' + reg[opn].__name__
        if Fm not in FNS: Fm = 'min_max_quantize_utils.materialize_standard_op'
        for bits, asym in ACT_CONFIGS:
            tag = f'{opn}.a{bits}.{"sym" if asym else "asym"}'; inputs = dict(family='same-scale', op=opn, bits=bits, act_symmetric=asym)
            m = mg.build(opn, bias=False); oi, gi = mg.infos(m, qt, srq(qt, bits, asym))
            with cc.guarded(goals, tag, Fm, inputs):
                with symnp.session() as cx:
                    qsv = sym_qsv(m, m.ins + m.outs); before = dict(qsv)
                    res = reg[opn](oi, gi, qsv); kind = classify(res, m); rn = by_name(res)
                    goals.append(G(f'{tag}.constraint-kind-is-{want[opn]}', Fm, ok=(kind == want[opn]), backend='cpython-exec', inputs=inputs, observed=dict(observed_kind=kind),
                                   clause=f'{opn}: outputs share the input parameters iff the property lists it as a same-as-input op; inputs share the output parameters iff it is CONCATENATION (expected: {want[opn]})'))
                    if want[opn] == 'input':
                        x = rn['x']; pin = x.consumers[0].parameters
                        Fi = 'min_max_quantize_utils._materialize_standard_op_with_same_as_input_scale'
                        ok = all(rn[m.names[o]].producer is not None and same_params(rn[m.names[o]].producer.parameters, pin) and rn[m.names[o]].producer.transformations == [qt.QuantTransformation.ADD_DEQUANTIZE] for o in m.outs) \
                             and all(rn[m.names[a]].consumers[0].parameters is None and rn[m.names[a]].consumers[0].transformations == [qt.QuantTransformation.NO_QUANTIZE] for a in m.aux)
                        goals.append(G(f'{tag}.every-output-carries-the-input-parameters', Fi, ok=bool(ok), backend='cpython-exec', inputs=inputs,
                                       clause='for all statistics: out.producer.parameters == in.consumers[0].parameters on (scale, zero_point, num_bits, symmetric, quantized_dimension) for every output; integer operands (shape/perm/axis/begin/end/strides) get NO_QUANTIZE and no parameters'))
                        ok = all(qsv[m.names[o]] is before['x'] or (arr_same(qsv[m.names[o]]['min'], before['x']['min']) and arr_same(qsv[m.names[o]]['max'], before['x']['max'])) for o in m.outs) and qsv['x'] is before['x']
                        goals.append(G(f'{tag}.output-statistics-become-the-input-statistics', Fi, ok=bool(ok), backend='cpython-exec', inputs=inputs,
                                       clause='tensor_name_to_qsv[output] holds the input\'s min / max afterwards (downstream ops derive their parameters from the constrained range)'))
                        goals.append(G(f'{tag}.input-parameters-from-its-own-statistics', Fi, stats_pre(m, m.ins + m.outs) + cx.hyps(),
                                       z3.And(scale_goal(pin, 'x', bits, asym), z3.BoolVal(pin.num_bits == bits and pin.symmetric is asym and pin.quantized_dimension is None)), inputs=inputs,
                                       replay=lambda model, b=bits, a=asym: cc.native_params(M, dict(bits=b, sym=a, gran='TENSORWISE', content=False), {'mn': model.get('mn_x'), 'mx': model.get('mx_x')})))
                    elif want[opn] == 'output':
                        y = rn['y']; pout = y.producer.parameters if y.producer else None
                        Fo = 'min_max_quantize_utils._materialize_standard_op_with_same_as_output_scale'
                        ok = pout is not None and all(same_params(rn[m.names[i]].consumers[0].parameters, pout) and rn[m.names[i]].consumers[0].transformations == [qt.QuantTransformation.ADD_QUANTIZE] for i in m.ins)
                        goals.append(G(f'{tag}.every-input-carries-the-output-parameters', Fo, ok=bool(ok), backend='cpython-exec', inputs=inputs,
                                       clause='for all statistics: in.consumers[0].parameters == out.producer.parameters on (scale, zero_point, num_bits, symmetric, quantized_dimension) for every input'))
                        if pout is not None:
                            goals.append(G(f'{tag}.output-parameters-from-its-own-statistics', Fo, stats_pre(m, m.ins + m.outs) + cx.hyps(),
                                           z3.And(scale_goal(pout, 'y', bits, asym), z3.BoolVal(pout.num_bits == bits and pout.symmetric is asym and pout.quantized_dimension is None)), inputs=inputs,
                                           replay=lambda model, b=bits, a=asym: cc.native_params(M, dict(bits=b, sym=a, gran='TENSORWISE', content=False), {'mn': model.get('mn_y'), 'mx': model.get('mx_y')})))
    # the same clauses when an operand is a CONSTANT (its parameter object is then a copy that carries the constant's own quantized data)
    for opn in sorted(cc.SAME_AS_INPUT_REF | cc.SAME_AS_OUTPUT_REF):
        if opn not in reg: continue
        nin = len(mg.build(opn).ins)
        for (bits, asym), k in itertools.product(ACT_CONFIGS, range(nin)):
            m = mg.build(opn); m.make_const(m.ins[k]); oi, gi = mg.infos(m, qt, srq(qt, bits, asym)); cname = m.names[m.ins[k]]
            tag = f'{opn}.a{bits}.{"sym" if asym else "asym"}.constant-operand-{cname}'; inputs = dict(family='same-scale', op=opn, bits=bits, act_symmetric=asym, constant_operand=cname)
            Fm = 'naive_min_max_quantize.' + reg[opn].__name__
            with cc.guarded(goals, tag, Fm, inputs):
                qsv = M.nmm.init_qsvs(oi, gi)
                for kn in list(qsv):
                    if not qsv[kn]: r_ = len(m.tensors[m.names.index(kn)].shape); qsv[kn] = {'min': np.full((1,) * r_, -1.5, np.float32), 'max': np.full((1,) * r_, 2.25, np.float32)}
                rn = by_name(reg[opn](oi, gi, qsv))
                if opn in cc.SAME_AS_INPUT_REF:
                    ref_p = rn['x'].consumers[0].parameters; others = [rn[m.names[o]].producer.parameters for o in m.outs]
                else:
                    ref_p = rn['y'].producer.parameters; others = [rn[m.names[i]].consumers[0].parameters for i in m.ins]
                goals.append(G(f'{tag}.parameters-are-shared', Fm, ok=bool(ref_p is not None and all(same_params(o, ref_p) for o in others)), inputs=inputs,
                               clause='with a constant operand: every tensor tied by the same-scale rule has equal (scale, zero_point, num_bits, symmetric, quantized_dimension)'))
    return goals

# ------------------------------------------------------------------------------------------------ (e) quantized dimension
PRIMES = (2, 3, 5, 7, 11)
def channel_shape(shape, qd): return tuple(shape[d] if d == qd else 1 for d in range(len(shape)))

def fam_qdim(M):
    goals = []; qt = M.qtyping; N = qt.TFLOperationName; Gr = qt.QuantGranularity
    table = {k.value: v for k, v in dict(M.fbu.TFL_OP_TO_WEIGHT_QUANTIZED_DIM).items()}
    goals.append(G('equals-the-spec-table', 'tfl_flatbuffer_utils.TFL_OP_TO_WEIGHT_QUANTIZED_DIM', ok=(table == cc.QDIM_REF), inputs=dict(family='qdim'), observed=table,
                   clause=f'TFL_OP_TO_WEIGHT_QUANTIZED_DIM == {cc.QDIM_REF} (same keys, same dimensions)'))
    used = {o.value for o in (M.utils._SUPPORTED_WEIGHT_ONLY_OPS | M.utils._SUPPORTED_DRQ_OPS)}
    goals.append(G('weight-config-is-consulted-only-for-ops-with-a-spec-dimension', 'min_max_quantize_utils._get_tensor_transformation_params_wrapper', ok=(used == set(cc.QDIM_REF) | {'BATCH_MATMUL'}),
                   inputs=dict(family='qdim'), observed=sorted(used), clause='_SUPPORTED_WEIGHT_ONLY_OPS | _SUPPORTED_DRQ_OPS == keys(spec table) + BATCH_MATMUL: a CHANNELWISE weight config can never reach an op without a spec dimension'))
    Fb = 'min_max_quantize_utils._get_bmm_weight_quantized_dim'
    for rank, adj in itertools.product(range(2, 7), (False, True)):
        got = M.utils._get_bmm_weight_quantized_dim(np.empty(PRIMES[:1] * rank, np.float32), adj_y=adj); wantd = cc.bmm_qdim_ref(rank, adj)
        goals.append(G(f'rank{rank}.adj_y-{adj}.is-{"rank-2" if adj else "rank-1"}', Fb, ok=(got == wantd and isinstance(got, int)), inputs=dict(family='qdim', rank=rank, adj_y=adj), observed=got,
                       clause=f'quantized dimension of the rhs == {wantd} (output-channel axis: last, or the one before it when adj_y)'))
    Fr = 'min_max_quantize_utils._get_reduce_dims'
    for rank, qd in itertools.product(range(0, 6), (None, -1, 0, 1, 2, 3, 4, 5)):
        got = M.utils._get_reduce_dims(qd, [2] * rank); wantr = None if qd is None else tuple(i for i in range(rank) if i != qd)
        goals.append(G(f'rank{rank}.qdim-{qd}.is-the-complement', Fr, ok=(got == wantr and (got is None or isinstance(got, tuple))), inputs=dict(family='qdim', rank=rank, quantized_dim=qd), observed=got,
                       clause=f'reduce dims == {wantr}: every axis except the quantized one (None = reduce everything)'))
    # quantized_dimension written by _get_tensor_quant_params: spec dimension iff CHANNELWISE (symbolic statistics: independent of the data)
    Fp = 'min_max_quantize_utils._get_tensor_quant_params'; mn, mx = z3.Reals('mn mx')
    for op in N:
        for gran in ('TENSORWISE', 'CHANNELWISE'):
            variants = [(r, a) for r in (2, 3, 4, 5) for a in (False, True)] if op.value == 'BATCH_MATMUL' else [(None, None)]
            for rank, adj in variants:
                o = M.schema.OperatorT()
                if adj is not None: o.builtinOptions = M.schema.BatchMatMulOptionsT(); o.builtinOptions.adjY = adj
                oi = qt.OpInfo(o, op, 0, qt.OpQuantizationConfig())
                content = SymArray(z3.Real('x'), F32, PRIMES[:rank]) if rank else None
                inputs = dict(family='qdim', op=op.value, granularity=gran, rank=rank, adj_y=adj)
                tag = f'{op.value}.{gran.lower()}' + (f'.rank{rank}.adj_y-{adj}' if rank else '')
                if gran == 'TENSORWISE': wantd = None
                elif op.value == 'BATCH_MATMUL': wantd = cc.bmm_qdim_ref(rank, adj)
                elif op.value in cc.QDIM_REF: wantd = cc.QDIM_REF[op.value]
                else: wantd = KeyError
                sshape = (1,) if not rank else (1,) * rank if wantd in (None, KeyError) else channel_shape(PRIMES[:rank], wantd)      # keepdims statistics
                with symnp.session() as cx:
                    try:
                        p = M.utils._get_tensor_quant_params(oi, {'min': SymArray(mn, F32, sshape), 'max': SymArray(mx, F32, sshape)}, qt.TensorQuantizationConfig(8, True, Gr(gran)), tensor_content=content)
                        got = p.quantized_dimension
                    except KeyError: got = KeyError
                    except symnp.Undecided: raise
                    except Exception as e: got = repr(e)
                goals.append(G(f'{tag}.quantized_dimension-is-{"KeyError" if wantd is KeyError else wantd}', Fp, ok=(got == wantd if wantd is not KeyError else got is KeyError), backend='cpython-exec', inputs=inputs, observed=str(got),
                               clause='quantized_dimension is None iff the config is not CHANNELWISE; CHANNELWISE: the spec dimension of the op (rank-1 / rank-2 for BATCH_MATMUL); an op without a spec dimension raises instead of guessing'))
    # relational: the axes reduced for the statistics and the quantized_dimension written agree (real init_tensor_min_max on real buffers)
    Fi = 'min_max_quantize_utils.init_tensor_min_max'; skipped = []
    ops = [(o, None) for o in cc.QDIM_REF] + [('BATCH_MATMUL', False), ('BATCH_MATMUL', True)]
    for (opn, adj), rank, gran in itertools.product(ops, range(1, 6), ('TENSORWISE', 'CHANNELWISE')):
        shape = PRIMES[:rank]; qd = (cc.bmm_qdim_ref(rank, adj) if opn == 'BATCH_MATMUL' else cc.QDIM_REF[opn]) if gran == 'CHANNELWISE' else None
        if qd is not None and not (0 <= qd < rank):
            skipped.append((opn, adj, rank)); continue                       # the spec dimension does not exist in a tensor of this rank: not a weight of this op
        m = mg.build(opn, bias=False, adj_y=bool(adj), weight_shape=shape); wcfg = qt.TensorQuantizationConfig(8, True, Gr(gran))
        oi, gi = mg.infos(m, qt, qt.OpQuantizationConfig(weight_tensor_config=wcfg, compute_precision=qt.ComputePrecision.INTEGER))
        t = m.tensors[m.weight]; data = m.data[m.weight]; st = None
        tag = f'{opn}' + (f'.adj_y-{adj}' if adj is not None else '') + f'.rank{rank}.{gran.lower()}'
        with cc.guarded(goals, tag, Fi, dict(family='qdim-relational', op=opn, adj_y=adj, rank=rank, granularity=gran, shape=shape)):
            st = M.utils.init_tensor_min_max(t, gi, oi)
            p = M.utils._get_tensor_quant_params(oi, st, wcfg, tensor_content=data)
        if st is None: continue
        wshape = channel_shape(shape, qd) if qd is not None else (1,) * rank
        ok = (set(st) == {'min', 'max'} and st['min'].shape == wshape and st['max'].shape == wshape and p.quantized_dimension == qd and p.scale.shape == wshape and p.zero_point.shape == wshape
              and p.scale.size == (shape[qd] if qd is not None else 1) and p.quantized_data.shape == shape)
        goals.append(G(f'{tag}.statistics-axes-agree-with-quantized_dimension-{qd}', Fi, ok=bool(ok), inputs=dict(family='qdim-relational', op=opn, adj_y=adj, rank=rank, granularity=gran, shape=shape),
                       observed=dict(min_shape=st['min'].shape, qdim=p.quantized_dimension, scale_shape=p.scale.shape),
                       clause=f'min/max/scale/zero_point shape == {wshape} (size of dimension {qd} there, 1 elsewhere) and quantized_dimension == {qd}: one parameter per slice along the dimension the statistics were NOT reduced over'))
    goals.append(G('relational.table-covers-every-weight-rank-of-every-op', Fi, ok=all(r not in cc.WEIGHT_RANKS[o] for (o, a, r) in skipped), inputs=dict(family='qdim-relational'), observed=skipped,
                   clause='every (op, rank) left out above (spec dimension >= rank) is a rank no weight operand of that op can have'))
    return goals

def fam_statistics(M):
    """init_tensor_min_max on SYMBOLIC tensor content (vlib/symnp_ext.SymArrayX behind get_tensor_data): which reductions are taken,
    of what, over which axes -- for every data value."""
    from vlib.symnp_ext import SymArrayX
    goals = []; qt = M.qtyping; Fi = 'min_max_quantize_utils.init_tensor_min_max'; made = {}
    def sym_data(tensor, buffers):
        if buffers[tensor.buffer].data is None: return None
        if tensor.type != mg.F32: raise symnp.Undecided('constant of a non-float type')
        made[id(tensor)] = SymArrayX(z3.Real('x'), F32, tuple(int(d) for d in tensor.shape)); return made[id(tensor)]
    Mx = cc.load_mods(M.mut, want=('uq', 'fbu', 'utils'), proxies={cc.FBU: cc.proxy_of(M.fbu, get_tensor_data=sym_data)})
    ops = [(o, None) for o in cc.QDIM_REF] + [('BATCH_MATMUL', False), ('BATCH_MATMUL', True)]
    for (opn, adj), gran in itertools.product(ops, ('TENSORWISE', 'CHANNELWISE')):
        for rank in cc.WEIGHT_RANKS[opn]:
            shape = PRIMES[:rank]; qd = (cc.bmm_qdim_ref(rank, adj) if opn == 'BATCH_MATMUL' else cc.QDIM_REF[opn]) if gran == 'CHANNELWISE' else None
            m = mg.build(opn, bias=False, adj_y=bool(adj), weight_shape=shape); wcfg = qt.TensorQuantizationConfig(8, True, qt.QuantGranularity(gran))
            oi, gi = mg.infos(m, qt, qt.OpQuantizationConfig(weight_tensor_config=wcfg, compute_precision=qt.ComputePrecision.INTEGER))
            t = m.tensors[m.weight]; want_axes = None if qd is None else tuple(d for d in range(rank) if d != qd)
            wshape = channel_shape(shape, qd) if qd is not None else (1,) * rank
            tag = f'{opn}' + (f'.adj_y-{adj}' if adj is not None else '') + f'.rank{rank}.{gran.lower()}'
            with cc.guarded(goals, tag, Fi, dict(family='statistics', op=opn, adj_y=adj, rank=rank, granularity=gran)):
                with symnp.session() as cx:
                    st = Mx.utils.init_tensor_min_max(t, gi, oi); red = getattr(cx, 'reductions', []); X = made.get(id(t))
                    ok = (isinstance(st, dict) and set(st) == {'min', 'max'} and len(red) == 2 and {r['name'] for r in red} == {'min', 'max'}
                          and all(r['operand'] is X and r['keepdims'] is True and r['axis'] == want_axes and st[r['name']] is r['result'] and r['result'].shape == wshape for r in red))
                    tag = f'{opn}' + (f'.adj_y-{adj}' if adj is not None else '') + f'.rank{rank}.{gran.lower()}'
                    goals.append(G(f'{tag}.statistics-are-min/max-of-the-content-over-axes-{want_axes}', Fi, ok=bool(ok), backend='cpython-exec',
                                   inputs=dict(family='statistics', op=opn, adj_y=adj, rank=rank, granularity=gran),
                                   observed=[dict(name=r['name'], axis=r['axis'], keepdims=r['keepdims'], shape=r['result'].shape) for r in red],
                                   clause=f'for every constant content: result == {{min: np.min(content, axis={want_axes}, keepdims=True), max: np.max(...same...)}}, shape {wshape}: the true per-'
                                          + ('tensor' if qd is None else f'slice (dimension {qd})') + ' minimum / maximum of the unmodified content'))
                    p = Mx.utils._get_tensor_quant_params(oi, st, wcfg, tensor_content=X)
                    s_ref, _, _ = cc.ref_params(st['min'].term, st['max'].term, 8, True)
                    goals.append(G(f'{tag}.parameters-from-those-statistics', 'min_max_quantize_utils._get_tensor_quant_params', [st['min'].term <= st['max'].term] + cx.hyps(),
                                   z3.And(p.scale.term == s_ref, p.zero_point.term == 0, z3.BoolVal(p.quantized_dimension == qd and p.scale.shape == wshape and p.zero_point.shape == wshape and p.quantized_data.shape == shape)),
                                   inputs=dict(family='statistics', op=opn, adj_y=adj, rank=rank, granularity=gran)))
    # activations: no statistics are invented for a tensor without constant data
    m = mg.build('FULLY_CONNECTED'); oi, gi = mg.infos(m, qt, qt.OpQuantizationConfig(weight_tensor_config=qt.TensorQuantizationConfig(8, True), compute_precision=qt.ComputePrecision.INTEGER))
    with symnp.session() as cx:
        r = Mx.utils.init_tensor_min_max(m.tensors[m.ins[0]], gi, oi)
    goals.append(G('activation.no-initial-statistics', Fi, ok=(r == {}), backend='cpython-exec', inputs=dict(family='statistics'), observed=str(r), clause='a tensor without constant data gets {} (its min/max come from calibration only)'))
    return goals

def fam_policy(M):
    goals = []; qt = M.qtyping; pol = M.dp.DEFAULT_CONFIG_CHECK_POLICY; Fp = 'default_policy.update_default_config_policy'
    goals.append(G('policy-is-not-empty', Fp, ok=len(pol) > 0 and all(len(v) > 0 for v in pol.values()), inputs=dict(family='policy'), observed=len(pol), clause='DEFAULT_CONFIG_CHECK_POLICY lists at least one config for every op it names'))
    for op, cfgs in pol.items():
        bad = [str(c) for c in cfgs if c.activation_tensor_config is not None and c.activation_tensor_config.granularity != qt.QuantGranularity.TENSORWISE]
        goals.append(G(f'{op.value}.every-admitted-activation-config-is-TENSORWISE', Fp, ok=not bad, inputs=dict(family='policy', op=op.value, configs=len(cfgs)), observed=bad[:2],
                       clause='forall config in DEFAULT_CONFIG_CHECK_POLICY[op]: activation_tensor_config is None or its granularity is TENSORWISE (per-channel parameters can only come from the weight config)'))
        badw = [str(c) for c in cfgs if c.weight_tensor_config is not None and c.weight_tensor_config.granularity == qt.QuantGranularity.BLOCKWISE]
        goals.append(G(f'{op.value}.no-admitted-config-is-BLOCKWISE', Fp, ok=not badw, inputs=dict(family='policy', op=op.value), observed=badw[:2],
                       clause='the default policy admits only TENSORWISE / CHANNELWISE weights (the emulated sub-channel path is outside C04)'))
    return goals

# ------------------------------------------------------------------------------------------------ (b) bias wiring in the conv-like materializers
def fam_bias_wiring(M, reg):
    goals = []; qt = M.qtyping; T = qt.TensorQuantizationConfig; Fm = 'naive_min_max_quantize._materialize_bias_for_conv_ops'
    modes = {'srq-a8': srq(qt, 8, False), 'srq-a8sym': srq(qt, 8, True), 'srq-a16': srq(qt, 16, True), 'srq-a8-w-tensorwise': srq(qt, 8, False, gran='TENSORWISE'),
             'drq': qt.OpQuantizationConfig(weight_tensor_config=T(8, True, qt.QuantGranularity.CHANNELWISE), compute_precision=qt.ComputePrecision.INTEGER),
             'weight-only': qt.OpQuantizationConfig(weight_tensor_config=T(8, True, qt.QuantGranularity.CHANNELWISE), compute_precision=qt.ComputePrecision.FLOAT, explicit_dequantize=True)}
    for opn, (mode, cfg), has_bias in itertools.product(('FULLY_CONNECTED', 'CONV_2D', 'DEPTHWISE_CONV_2D', 'CONV_2D_TRANSPOSE'), modes.items(), (True, False)):
        m = mg.build(opn, bias=has_bias); oi, gi = mg.infos(m, qt, cfg)
        qsv = {m.names[i]: {'min': np.array([[-1.5]], np.float32).reshape((1,) * len(m.tensors[i].shape)), 'max': np.array([[2.25]], np.float32).reshape((1,) * len(m.tensors[i].shape))} for i in m.ins + m.outs}
        calls = []; real = M.uq.symmetric_quantize_bias_tensor
        def spy(*a, **k):
            r = real(*a, **k); calls.append((a, k, r)); return r
        M.uq.symmetric_quantize_bias_tensor = spy; res = None
        inputs = dict(family='bias-wiring', op=opn, mode=mode, bias=has_bias); tag = f'{opn}.{mode}.{"bias" if has_bias else "no-bias"}'
        with cc.guarded(goals, tag, Fm, inputs):
            try: res = reg[opn](oi, gi, qsv)
            finally: M.uq.symmetric_quantize_bias_tensor = real
        if res is None: continue
        rn = by_name(res); is_srq = mode.startswith('srq')
        if not has_bias:
            goals.append(G(f'{tag}.no-bias-parameters', Fm, ok=(not calls and 'b' not in rn), inputs=inputs, clause='an absent bias operand (-1 / missing) gets no entry and is never quantized')); continue
        e = rn['b'].consumers[0]; pos = m.pos
        if is_srq:
            pin = res[pos['input']].consumers[0].parameters; pw = res[pos['weight']].consumers[0].parameters
            ok = (len(calls) == 1 and calls[0][0][1] is pin and calls[0][0][2] is pw and np.array_equal(calls[0][0][0], m.data[m.bias]) and e.parameters is calls[0][2]
                  and res[pos['bias']] is rn['b'] and res[pos['input']].tensor_name == 'x' and res[pos['weight']].tensor_name == 'w' and e.transformations == [qt.QuantTransformation.QUANTIZE_TENSOR])
            goals.append(G(f'{tag}.bias-quantized-from-THE-input-and-weight-parameter-objects', Fm, ok=bool(ok), inputs=inputs,
                           clause='symmetric_quantize_bias_tensor is called once with (bias content, the parameter object emitted for the activation input, the one emitted for the weight) and its result is the bias entry'))
            n = m.data[m.bias].shape[0]; bp = e.parameters; want = np.ravel(np.asarray(pin.scale, np.float64) * np.asarray(pw.scale, np.float64))
            want = np.full(1, want[0]) if want.size == 1 else want
            ok = (bp.scale.shape == want.shape and np.allclose(bp.scale, want, rtol=1e-6) and np.all(bp.zero_point == 0) and bp.num_bits == (64 if cfg.activation_tensor_config.num_bits == 16 else 32)
                  and bp.quantized_dimension == (None if want.size == 1 else 0) and bp.scale.size in (1, n))
            goals.append(G(f'{tag}.bias-scale-is-input-scale-times-weight-scale-per-channel', Fm, ok=bool(ok), inputs=inputs, observed=dict(scale=[float(v) for v in bp.scale], want=[float(v) for v in want], num_bits=bp.num_bits),
                           clause='on this graph: bias scale == input scale * weight scale (1-D, one per output channel or one), zero point 0, 32 bits (64 with 16-bit activations)'))
        else:
            ok = not calls and e.parameters is None and e.transformations == [qt.QuantTransformation.NO_QUANTIZE]
            goals.append(G(f'{tag}.bias-left-float', Fm, ok=bool(ok), inputs=inputs, clause='outside static-range quantization the bias keeps no parameters and NO_QUANTIZE'))
    return goals

# ------------------------------------------------------------------------------------------------ bounded stand-ins
def bounded(rep, M):
    """numeric content of the statistics (np.min / np.max are trusted, here compared with an independent per-slice loop)"""
    qt = M.qtyping; cases = fails = 0
    for (opn, adj), gran in itertools.product([(o, None) for o in cc.QDIM_REF] + [('BATCH_MATMUL', False), ('BATCH_MATMUL', True)], ('TENSORWISE', 'CHANNELWISE')):
        for rank in cc.WEIGHT_RANKS[opn]:
            shape = PRIMES[:rank]; qd = (cc.bmm_qdim_ref(rank, adj) if opn == 'BATCH_MATMUL' else cc.QDIM_REF[opn]) if gran == 'CHANNELWISE' else None
            m = mg.build(opn, bias=False, adj_y=bool(adj), weight_shape=shape); wcfg = qt.TensorQuantizationConfig(8, True, qt.QuantGranularity(gran))
            oi, gi = mg.infos(m, qt, qt.OpQuantizationConfig(weight_tensor_config=wcfg, compute_precision=qt.ComputePrecision.INTEGER))
            st = M.utils.init_tensor_min_max(m.tensors[m.weight], gi, oi); data = m.data[m.weight]; p = M.utils._get_tensor_quant_params(oi, st, wcfg, tensor_content=data)
            for c in range(shape[qd] if qd is not None else 1):
                sl = np.take(data, c, axis=qd) if qd is not None else data; cases += 1
                s_ref, _ = cc.ref_params_native(sl.min(), sl.max(), 8, True)
                if float(np.ravel(st['min'])[c]) != float(sl.min()) or float(np.ravel(st['max'])[c]) != float(sl.max()) or not np.isclose(float(np.ravel(p.scale)[c]), float(s_ref), rtol=1e-6): fails += 1
    rep.add_bounded('init_tensor_min_max + _get_tensor_quant_params: per-slice min/max and scale values', 'one deterministic weight tensor per (op, admissible rank, granularity); every channel compared with an independent per-slice min/max and the reference scale', cases, fails)
    return fails

# ------------------------------------------------------------------------------------------------ canaries
CANARIES = [
    ('symmetric_quantize_bias_tensor: 64 if ... == 16 else 32 swapped', cc.UQ, 'bias_number_bits = 64 if input_tensor_quant_params.num_bits == 16 else 32', 'bias_number_bits = 32 if input_tensor_quant_params.num_bits == 16 else 64', 'bias', ['in8.num_bits-is-32-and-symmetric', 'in16.num_bits-is-64-and-symmetric']),
    ('symmetric_quantize_bias_tensor: input_scale * weight_scale -> +', cc.UQ, 'np.squeeze(input_tensor_scale * weight_tensor_scale)', 'np.squeeze(input_tensor_scale + weight_tensor_scale)', 'bias', ['in8.scale-is-input-scale-times-weight-scale']),
    ('materialize_softmax_and_logistic: zero point -128 -> 0', cc.NMM, 'zero_point=np.array(-128),', 'zero_point=np.array(0),', 'fixed', ['SOFTMAX.a8.asym.output-scale-1/256-zero-point--128', 'LOGISTIC.a8.sym.output-scale-1/256-zero-point--128']),
    ('materialize_softmax_and_logistic: scale 1/256 -> 1/128', cc.NMM, 'scale=np.array(1.0 / 256),', 'scale=np.array(1.0 / 128),', 'fixed', ['SOFTMAX.a8.asym.output-scale-1/256-zero-point--128']),
    ('materialize_tanh: 1 << (num_bits - 1) -> 1 << num_bits', cc.NMM, 'scale=np.array(1.0 / (1 << (num_bits - 1))),', 'scale=np.array(1.0 / (1 << num_bits)),', 'fixed', ['TANH.a8.asym.output-scale-1/128-zero-point-0', 'TANH.a16.sym.output-scale-1/32768-zero-point-0']),
    ('TFL_OP_TO_WEIGHT_QUANTIZED_DIM: DEPTHWISE_CONV_2D 3 -> 0', cc.FBU, '_TFLOpName.DEPTHWISE_CONV_2D: 3,', '_TFLOpName.DEPTHWISE_CONV_2D: 0,', 'qdim', ['equals-the-spec-table', 'DEPTHWISE_CONV_2D.channelwise.quantized_dimension-is-3']),
    ('_get_reduce_dims: != -> ==', cc.UTILS, 'if rank_idx != quantized_dim:', 'if rank_idx == quantized_dim:', 'qdim', ['rank4.qdim-3.is-the-complement', 'CONV_2D.rank4.channelwise.statistics-axes-agree-with-quantized_dimension-0']),
    ('_get_bmm_weight_quantized_dim: rank - 2 -> rank - 1', cc.UTILS, 'return rank - 2', 'return rank - 1', 'qdim', ['rank3.adj_y-True.is-rank-2']),
    ('_materialize_standard_op_with_same_as_input_scale: outputs no longer receive the input parameters', cc.UTILS, 'quant_params=input_tensor_params.consumers[0].parameters,', 'quant_params=None,', 'same-scale', ['RESHAPE.a8.asym.every-output-carries-the-input-parameters', 'SPLIT.a8.asym.constraint-kind-is-input']),
    ('materialize_concatenation: SAME_AS_OUTPUT_SCALE -> NO_CONSTRAIN', cc.NMM, 'constraint=_OpQuantConstraint.SAME_AS_OUTPUT_SCALE,', 'constraint=_OpQuantConstraint.NO_CONSTRAIN,', 'same-scale', ['CONCATENATION.a8.asym.every-input-carries-the-output-parameters']),
    ('_get_tensor_quant_params: symmetric flag negated on the way into tensor_zp_scale_from_min_max', cc.UTILS, '      tensor_quant_config.symmetric,\n  )\n  quantized_dim = None', '      not tensor_quant_config.symmetric,\n  )\n  quantized_dim = None', 'params', ['b8.sym.tensorwise.activation.scale-equals-reference']),
    ('_get_tensor_quant_params: min and max swapped', cc.UTILS, '      tensor_min_max["min"],\n      tensor_min_max["max"],', '      tensor_min_max["max"],\n      tensor_min_max["min"],', 'params', ['b8.asym.tensorwise.activation.zero-point-equals-reference']),
    ('_materialize_bias_for_conv_ops: bias quantized against the weight parameters twice', cc.NMM, 'op_tensor_params[op_input_index].consumers[0].parameters,', 'op_tensor_params[op_weight_index].consumers[0].parameters,', 'bias-wiring', ['FULLY_CONNECTED.srq-a8.bias.bias-quantized-from-THE-input-and-weight-parameter-objects']),
    ('init_tensor_min_max: "max" statistic computed with np.min', cc.UTILS, '"max": np.max(tensor_data, axis=reduce_dims, keepdims=True),', '"max": np.min(tensor_data, axis=reduce_dims, keepdims=True),', 'statistics', ['CONV_2D.rank4.channelwise.statistics-are-min/max-of-the-content-over-axes-(1, 2, 3)']),
    ('init_tensor_min_max: statistics of the absolute values', cc.UTILS, '"min": np.min(tensor_data, axis=reduce_dims, keepdims=True),', '"min": np.min(np.abs(tensor_data), axis=reduce_dims, keepdims=True),', 'statistics', ['FULLY_CONNECTED.rank2.channelwise.statistics-are-min/max-of-the-content-over-axes-(1,)']),
    ('default policy: activations may be CHANNELWISE', cc.DP, '"symmetric": [true, false],\n        "granularity": ["TENSORWISE"],', '"symmetric": [true, false],\n        "granularity": ["CHANNELWISE", "TENSORWISE"],', 'policy', ['ADD.every-admitted-activation-config-is-TENSORWISE']),
]

FAMILIES = ('params', 'bias', 'fixed', 'same-scale', 'qdim', 'statistics', 'policy', 'bias-wiring')
def families(M, only=None):
    reg = cc.registry(M)['min_max_uniform_quantize']
    fam = {'params': lambda: [g for g in cc.fam_params(M) if 'C04' in g.props], 'bias': lambda: [g for g in cc.fam_bias(M) if 'C04' in g.props],
           'fixed': lambda: fam_fixed(M, reg), 'same-scale': lambda: fam_same_scale(M, reg), 'qdim': lambda: fam_qdim(M), 'policy': lambda: fam_policy(M), 'bias-wiring': lambda: fam_bias_wiring(M, reg), 'statistics': lambda: fam_statistics(M)}
    out = []
    for k, f in fam.items():
        if only is None or k in only:
            gl = f()
            for g in gl: g.family = k
            out += gl
    return out

def run(rep):
    M = cc.load_mods(); fns = {k: rep.fn(core.Fn(rel, q)) for k, (rel, q) in FNS.items()}
    rep.trust('numpy elementwise operations = pointwise lifting of the scalar operation on the promoted dtype; np.squeeze / expand_dims / broadcasting shape rules are numpy\'s own (executed, not modelled)')
    rep.trust('np.min / np.max(axis=dims, keepdims=True) return the minimum / maximum of each slice (value content compared natively in a bounded stand-in only; shapes are proved)')
    rep.trust('np.rint: |rint(x)-x| <= 1/2, monotone, identity on integers')
    rep.trust('C17 (cited, not redone): tensor_zp_scale_from_min_max == reference formulas, scale finite and positive (binary32), zero point integral and within [qmin, qmax], equal shapes; '
              'the C04 goals re-derive scale / zero point through _get_tensor_quant_params end to end')
    rep.trust('flatbuffer object-API classes are plain attribute bags; tfl_flatbuffer_utils.get_tensor_data = np.frombuffer(...).reshape(tensor.shape)')
    rep.assume('float32/float64 arithmetic treated as real arithmetic in every scale / zero-point equality (binary32 finiteness and sign of the scale: C17)')
    rep.assume('statistics are what C09 says they are (calibrated min/max of activations); a weight operand of CONV_2D / DEPTHWISE_CONV_2D / CONV_2D_TRANSPOSE has rank 4, of FULLY_CONNECTED rank 2, of EMBEDDING_LOOKUP / BATCH_MATMUL rank 2..5')
    rep.assume('activation configs are those of DEFAULT_CONFIG_CHECK_POLICY (8-bit symmetric/asymmetric, 16-bit symmetric, TENSORWISE); skip_checks configs are outside C04')
    rep.assume('BLOCKWISE (emulated sub-channel) weights are outside the property text and not under contract')
    try:
        goals = families(M)
    except symnp.Undecided as e:
        # outside the symbolic front end: undecided by the contracts (exit 2), unless the native stand-in finds a failing input
        rep.add(core.Ob('C04/engine-subset', None, 'cpython-exec-symnp', core.UNKNOWN, 0.0, detail=f'the symbolic front end could not follow the code: {e}', clause='carriers within the symbolic-numpy subset'))
        fails = bounded(rep, M)
        if fails:
            ob = core.Ob('C04/bounded.statistics/values-equal-independent-reduction', None, 'bounded-native', core.REFUTED, 0.0, detail=f'{fails} failing cases of the native stand-in', clause='statistics / parameters equal the independent per-slice reference'); ob.replay = dict(confirmed=True, inputs='see the bounded entry of the evidence file'); rep.add(ob)
        return
    res = cc.discharge(goals)
    cc.register(rep, 'C04', fns, goals, res)
    base = {g.id: r[0] for g, r in zip(goals, res)}
    fails = bounded(rep, M)
    if fails and all(v == 'proved' for v in base.values()): rep.errors.append('bounded stand-in disagrees with the proved obligations')
    # covers: the hypotheses / tables behind each family are inhabited
    s = z3.Solver(); mn, mx = z3.Reals('mn mx'); s.add(mn <= mx, mn < 0, mx > 0); rep.cover('params.statistics-precondition', s.check() == z3.sat)
    s = z3.Solver(); si, sw = z3.Reals('si sw'); s.add(si > 0, sw > 0); rep.cover('bias.scales-positive', s.check() == z3.sat)
    for k in FAMILIES: rep.cover(f'family.{k}.non-empty', any(g.family == k for g in goals))
    rep.extra['obligations_per_family'] = {k: sum(1 for g in goals if g.family == k) for k in FAMILIES}
    # the mutant loader itself: re-executing a module from its UNCHANGED text must reproduce the verdicts (otherwise a canary could be 'killed' by the loader)
    Mi = cc.load_mods({cc.UTILS: core.read_source(cc.UTILS), cc.FBU: core.read_source(cc.FBU), cc.UQ: core.read_source(cc.UQ)})
    gi = families(Mi, only=['same-scale', 'qdim', 'fixed', 'statistics']); ri = cc.discharge(gi, parallel=False)
    rep.cover('mutant-loader.identity-mutation-reproduces-all-verdicts', all(r[0] == base.get(g.id) for g, r in zip(gi, ri)) and len(gi) > 100)
    # canaries
    for name, rel, a, b, fam, expect in CANARIES:
        src = core.read_source(rel)
        if a not in src: rep.canary(name, False, 'mutation site not found (stale canary)'); continue
        try:
            Mm = cc.load_mods({rel: src.replace(a, b, 1)}); gl = [g for g in families(Mm, only=[fam]) if g.id in expect]
        except Exception as e:
            rep.canary(name, True, f'mutant rejected while executing: {type(e).__name__}: {e}'); continue
        missing = [e for e in expect if e not in {g.id for g in gl}]
        if missing: rep.canary(name, False, f'expected obligations not generated: {missing}'); continue
        rs = cc.discharge(gl, parallel=False)
        rep.canary(name, any(r[0] != 'proved' for r in rs) and all(base.get(g.id) == 'proved' for g in gl), str([(g.id, r[0]) for g, r in zip(gl, rs)]))

def replay(payload):
    """re-runs the family of the recorded obligation on the real code and reports whether the recorded input still fails"""
    M = cc.load_mods(); inp = payload.get('inputs') or {}; oid = payload.get('obligation', ''); fam = inp.get('family')
    print('replaying', oid, inp)
    if fam == 'params' or 'min' in inp and 'bits' in inp:
        rp = cc.native_params(M, inp, {'mn': str(fractions.Fraction(inp.get('min', 0.0))), 'mx': str(fractions.Fraction(inp.get('max', 0.0)))}); print(rp); return 1 if rp['confirmed'] else 0
    if fam == 'bias':
        rp = cc.native_bias(M, inp, {k: str(fractions.Fraction(inp[v])) for k, v in (('si', 'input_scale'), ('sw', 'weight_scale'), ('b', 'bias')) if v in inp}); print(rp); return 1 if rp['confirmed'] else 0
    key = {'qdim-relational': 'qdim'}.get(fam, fam)
    goals = [g for g in families(M, only=[key] if key else None) if oid.endswith('/' + g.id)]
    res = cc.discharge(goals, parallel=False)
    for g, r in zip(goals, res): print(g.id, r[0], g.observed)
    return 1 if any(r[0] != 'proved' for r in res) else 0
